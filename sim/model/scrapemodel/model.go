// Package scrapemodel is the reference model of property C37 ("Scraping stores exactly the exposed samples and
// marks vanished series stale"). It is written from the property statement and the user documentation of
// <scrape_config> / <relabel_config> (docs/configuration/configuration.md) and of staleness
// (docs/querying/basics.md), not from scrape/*.go:
//
//   - a successful scrape at scrape time T stores, for every exposed sample that metric relabeling keeps, the
//     relabeled series at T or at its explicit timestamp (honor_timestamps); a (series, timestamp) pair holds one
//     value, the first exposed one;
//   - a series that had a sample without explicit timestamp in scrape k-1 (or any sample when
//     track_timestamps_staleness is on) and is not exposed in scrape k gets a staleness marker at T_k;
//   - a failed scrape (no response, non-200, unreadable body, unparsable body, a sample / label limit exceeded,
//     invalid names) stores none of its samples and marks every tracked series stale at T_k;
//   - every scrape stores up, scrape_duration_seconds, scrape_samples_scraped,
//     scrape_samples_post_metric_relabeling, scrape_series_added (and the three extra series when enabled) at T_k.
//
// The model is a pure function of what the simulated target served (Served) and of the scrape configuration;
// it does not know how the implementation caches anything. Where the documentation leaves a number open
// (scrape_series_added is documented as "approximate"; counters of a scrape that failed half way through its body)
// the model returns a range and says so.
package scrapemodel

import (
	"fmt"
	"math"
	"regexp"
	"sort"
	"strconv"
	"strings"
	"unicode/utf8"
)

// StaleNaN / NormalNaN are the two NaN bit patterns of the storage contract (model/value).
const (
	StaleNaN  uint64 = 0x7ff0000000000002
	NormalNaN uint64 = 0x7ff8000000000001
)

// Label is one label pair.
type Label struct {
	N string `json:"n"`
	V string `json:"v"`
}

// Labels is a label set (kept sorted by name, no empty values, by the helpers below).
type Labels []Label

func (ls Labels) Get(n string) string {
	for _, l := range ls {
		if l.N == n {
			return l.V
		}
	}
	return ""
}

func (ls Labels) Has(n string) bool { return ls.Get(n) != "" }

// FromMap builds a sorted label set, dropping empty values (an empty label value is the same as no label).
func FromMap(m map[string]string) Labels {
	out := make(Labels, 0, len(m))
	for n, v := range m {
		if v != "" {
			out = append(out, Label{n, v})
		}
	}
	sort.Slice(out, func(i, j int) bool { return out[i].N < out[j].N })
	return out
}

func (ls Labels) Map() map[string]string {
	m := make(map[string]string, len(ls))
	for _, l := range ls {
		m[l.N] = l.V
	}
	return m
}

// Canon is the canonical text of a label set, used as series identity everywhere in the simulation.
func Canon(ls Labels) string {
	s := append(Labels(nil), ls...)
	sort.Slice(s, func(i, j int) bool { return s[i].N < s[j].N })
	var sb strings.Builder
	sb.WriteByte('{')
	for i, l := range s {
		if i > 0 {
			sb.WriteByte(',')
		}
		sb.WriteString(l.N)
		sb.WriteByte('=')
		sb.WriteString(strconv.Quote(l.V))
	}
	sb.WriteByte('}')
	return sb.String()
}

// Relabel is one <relabel_config>. Every field is explicit in plans (no defaults), so that the YAML given to
// Prometheus and the model agree on what was configured.
type Relabel struct {
	Action string   `json:"a"`
	Source []string `json:"src,omitempty"`
	Sep    string   `json:"sep"`
	Regex  string   `json:"re"`
	Target string   `json:"tgt,omitempty"`
	Repl   string   `json:"repl"`
}

// JobCfg is one version of a <scrape_config>.
type JobCfg struct {
	Name            string    `json:"name"`
	IntervalMs      int64     `json:"interval_ms"`
	TimeoutMs       int64     `json:"timeout_ms"`
	HonorLabels     bool      `json:"honor_labels,omitempty"`
	HonorTimestamps bool      `json:"honor_timestamps"`
	TrackTS         bool      `json:"track_ts,omitempty"`
	SampleLimit     int       `json:"sample_limit,omitempty"`
	LabelLimit      int       `json:"label_limit,omitempty"`
	LabelNameLen    int       `json:"label_name_len,omitempty"`
	LabelValueLen   int       `json:"label_value_len,omitempty"`
	BucketLimit     int       `json:"bucket_limit,omitempty"`
	BodySizeLimit   int       `json:"body_size_limit,omitempty"`
	Relabel         []Relabel `json:"relabel,omitempty"`
	Extra           bool      `json:"extra,omitempty"`
	Legacy          bool      `json:"legacy,omitempty"` // metric_name_validation_scheme: legacy
	Protocols       []string  `json:"protocols,omitempty"`
	Fallback        string    `json:"fallback,omitempty"`
	Compression     bool      `json:"compression,omitempty"`
	NativeHist      bool      `json:"native_hist,omitempty"`
	Removed         bool      `json:"removed,omitempty"` // the job is not part of this configuration version any more
}

// Hist is a native histogram in bucket-map form (what the model compares; spans/deltas are an encoding detail).
type Hist struct {
	Schema int32           `json:"schema"`
	ZeroTh float64         `json:"zth"`
	Zero   uint64          `json:"zero"`
	Count  uint64          `json:"count"`
	Sum    float64         `json:"sum"`
	Pos    map[int32]int64 `json:"pos,omitempty"`
	Neg    map[int32]int64 `json:"neg,omitempty"`
	Gauge  bool            `json:"gauge,omitempty"`
	Float  bool            `json:"float,omitempty"`
	Custom []float64       `json:"custom,omitempty"`
}

// NBuckets is the number of populated positive and negative buckets as exposed.
func (h *Hist) NBuckets() int { return len(h.Pos) + len(h.Neg) }

// Key is a canonical text of the histogram used for equality.
func (h *Hist) Key() string {
	var sb strings.Builder
	fmt.Fprintf(&sb, "s=%d zt=%x z=%d c=%d sum=%x g=%v f=%v", h.Schema, math.Float64bits(h.ZeroTh), h.Zero, h.Count, math.Float64bits(h.Sum), h.Gauge, h.Float)
	for _, side := range []map[int32]int64{h.Pos, h.Neg} {
		sb.WriteString(" [")
		var ks []int
		for k, v := range side {
			if v != 0 {
				ks = append(ks, int(k))
			}
		}
		sort.Ints(ks)
		for _, k := range ks {
			fmt.Fprintf(&sb, "%d:%d ", k, side[int32(k)])
		}
		sb.WriteString("]")
	}
	if h.Custom != nil {
		fmt.Fprintf(&sb, " cb=%v", h.Custom)
	}
	return sb.String()
}

// Reduce returns the histogram at a lower resolution (exponential schemas only): a bucket with index i at schema s
// lies inside the bucket with index ceil(i / 2^(s-s')) at schema s' < s (its upper bound is 2^(i*2^-s)).
func (h *Hist) Reduce(to int32) *Hist {
	if to >= h.Schema {
		return h
	}
	sh := uint(h.Schema - to)
	out := *h
	out.Schema = to
	out.Pos, out.Neg = map[int32]int64{}, map[int32]int64{}
	conv := func(i int32) int32 {
		// ceil(i / 2^sh) for signed i
		return int32((int64(i) + (int64(1) << sh) - 1) >> sh)
	}
	for i, c := range h.Pos {
		out.Pos[conv(i)] += c
	}
	for i, c := range h.Neg {
		out.Neg[conv(i)] += c
	}
	return &out
}

// Sample is one exposed sample as the simulated target rendered it.
type Sample struct {
	Name   string `json:"name"`
	Labels Labels `json:"labels,omitempty"` // as exposed (without __name__)
	Form   int    `json:"form,omitempty"`   // which textual variant of the series identifier was rendered
	HasTS  bool   `json:"has_ts,omitempty"`
	TS     int64  `json:"ts,omitempty"` // explicit timestamp, ms
	Val    uint64 `json:"val"`          // float64 bits as exposed ("NaN" is NormalNaN)
	Hist   *Hist  `json:"hist,omitempty"`
	PU     bool   `json:"pu,omitempty"` // rendered as a protobuf UNTYPED metric (only matters for a listed finding)
	// Src is the index of the plan line the sample comes from, Group > 0 marks the samples of one classic histogram
	// (count, sum, buckets) that a protobuf body carries as one message. Neither matters to the model.
	Src   int `json:"src,omitempty"`
	Group int `json:"grp,omitempty"`
}

// Key identifies the exposed (pre-relabeling) series incl. its textual form.
func (s *Sample) Key() string {
	return fmt.Sprintf("%s%s#%d", s.Name, Canon(s.Labels), s.Form)
}

// Outcome classes of what a target served.
const (
	ServedOK        = "ok"         // 200 and a complete body in a recognised format
	ServedHTTPFail  = "http-fail"  // no usable response: dial error, timeout, non-200, short/corrupt body, body too large
	ServedBadFormat = "bad-format" // 200 but the content type cannot be used
	ServedGarbage   = "garbage"    // 200, parse error after BreakAt samples
)

// Served is what one scrape attempt got from the simulated target.
type Served struct {
	K        int      `json:"k"`
	AtNs     int64    `json:"at_ns"` // fake time of first contact (dial or request on a kept-alive connection)
	Class    string   `json:"class"`
	Fault    string   `json:"fault,omitempty"`
	Samples  []Sample `json:"samples,omitempty"`
	BreakAt  int      `json:"break_at,omitempty"` // ServedGarbage: number of samples before the unparsable point
	BodyLen  int      `json:"body_len,omitempty"` // uncompressed body size of a 200 response that arrived completely
	TooLarge bool     `json:"too_large,omitempty"`
	// TooLargeMaybe: the body was cut short AND is larger than body_size_limit; which of the two the scrape
	// notices first is not specified.
	TooLargeMaybe bool  `json:"too_large_maybe,omitempty"`
	DelayNs       int64 `json:"delay_ns,omitempty"` // time the target took (or the timeout, when it never answered)
}

// XSample is one expected stored sample.
type XSample struct {
	Series string
	Labels Labels
	T      int64
	Val    uint64
	Hist   *Hist
	Known  string // finding tag that explains a wrong stored value of this sample
	// HistAlt lists acceptable lower-resolution results when a bucket limit forces a reduction ("the resolution
	// ... will be reduced until the number of buckets is within the limit"): exactly the first schema that fits.
}

// Range is an inclusive integer range.
type Range struct{ Lo, Hi int }

func (r Range) Has(v float64) bool {
	return v == math.Trunc(v) && v >= float64(r.Lo) && v <= float64(r.Hi)
}
func (r Range) String() string {
	if r.Lo == r.Hi {
		return strconv.Itoa(r.Lo)
	}
	return fmt.Sprintf("[%d,%d]", r.Lo, r.Hi)
}
func exact(n int) Range { return Range{n, n} }

// Expect is what one scrape must have written.
type Expect struct {
	T        int64
	Up       bool
	FailKind string
	Samples  []XSample         // first-wins per (series, T), in exposition order
	Markers  map[string]Labels // series that must get a staleness marker at T
	Scraped  Range
	Post     Range
	Added    Range
	// BodyBytes lists the acceptable values of scrape_body_size_bytes.
	BodyBytes []float64

	// Deviations that listed known findings explain (the strict expectation above does NOT include them).
	KnownMissing map[string]string // marker series -> finding tag: implementation is known to omit it
	KnownExtra   map[string]string // marker series -> finding tag: implementation is known to add it

	// Stats of the judged body (coverage probes).
	Stats map[string]int
	// MultiEntry: stored series that were reached through more than one exposed identifier in this and the previous
	// successful scrape together (precondition of finding ref-forgotten-with-several-cache-entries-...).
	MultiEntry map[string]bool
	// Ambiguous: the verdict on this body depends on a point the documentation leaves open (the workload generator
	// must not produce such bodies).
	Ambiguous bool
}

// Lifetime is the staleness state of one target between its creation and its removal (or a reload that changes
// what is stored). Tracked is the set of series that must be marked stale when they vanish.
type Lifetime struct {
	Tracked map[string]Labels
	// scrape_series_added bookkeeping. The series is documented as "approximate number of new series in this
	// scrape": the model bounds it from below by the stored series that the last successful scrape did not store and
	// from above by the exposed identifiers (before relabeling, as rendered) that it did not contain; both coincide
	// unless relabeling maps several exposed series onto one. After a scrape whose effect on this bookkeeping is
	// not documented (an empty successful scrape, a scrape that failed after part of its body had been accepted)
	// the lower bound is 0 until the next successful scrape.
	SeenKeys   map[string]bool
	SeenSeries map[string]bool
	Uncertain  bool
	// KeysOf: the exposed identifiers that led to each stored series in the last successful non-empty scrape.
	KeysOf map[string]map[string]bool
	// Phantom: series the implementation is known to keep tracking after a scrape that failed half way through
	// its body (finding failed-append-keeps-staleness-tracking).
	Phantom map[string]Labels
	Scrapes int
}

func NewLifetime() *Lifetime {
	return &Lifetime{Tracked: map[string]Labels{}, SeenKeys: map[string]bool{}, SeenSeries: map[string]bool{}, Phantom: map[string]Labels{}}
}

const (
	TagPartial     = "failed-append-keeps-staleness-tracking"
	TagModeSwitch  = "stale-marker-on-timestamp-mode-switch"
	TagUntypedZero = "proto-untyped-zero-keeps-previous-value"
)

var legacyName = regexp.MustCompile(`^[a-zA-Z_:][a-zA-Z0-9_:]*$`)
var legacyLabel = regexp.MustCompile(`^[a-zA-Z_][a-zA-Z0-9_]*$`)

func validNames(ls Labels, legacy bool) bool {
	for _, l := range ls {
		if !utf8.ValidString(l.V) || !utf8.ValidString(l.N) || l.N == "" {
			return false
		}
		if legacy {
			if !legacyLabel.MatchString(l.N) {
				return false
			}
			if l.N == "__name__" && !legacyName.MatchString(l.V) {
				return false
			}
		}
	}
	return true
}

var reCache = map[string]*regexp.Regexp{}

func anchored(re string) *regexp.Regexp {
	if r, ok := reCache[re]; ok {
		return r
	}
	r := regexp.MustCompile("^(?s:" + re + ")$")
	reCache[re] = r
	return r
}

// ApplyRelabel applies <relabel_config> steps to a label map; false means the sample is dropped.
func ApplyRelabel(m map[string]string, rules []Relabel) bool {
	for _, rc := range rules {
		vals := make([]string, len(rc.Source))
		for i, s := range rc.Source {
			vals[i] = m[s]
		}
		val := strings.Join(vals, rc.Sep)
		re := anchored(rc.Regex)
		switch rc.Action {
		case "drop":
			if re.MatchString(val) {
				return false
			}
		case "keep":
			if !re.MatchString(val) {
				return false
			}
		case "dropequal":
			if m[rc.Target] == val {
				return false
			}
		case "keepequal":
			if m[rc.Target] != val {
				return false
			}
		case "replace":
			idx := re.FindStringSubmatchIndex(val)
			if idx == nil {
				break
			}
			target := string(re.ExpandString(nil, rc.Target, val, idx))
			res := string(re.ExpandString(nil, rc.Repl, val, idx))
			if res == "" {
				delete(m, target)
			} else {
				m[target] = res
			}
		case "lowercase":
			setOrDel(m, rc.Target, strings.ToLower(val))
		case "uppercase":
			setOrDel(m, rc.Target, strings.ToUpper(val))
		case "labeldrop":
			for n := range m {
				if re.MatchString(n) {
					delete(m, n)
				}
			}
		case "labelkeep":
			for n := range m {
				if !re.MatchString(n) {
					delete(m, n)
				}
			}
		case "labelmap":
			add := map[string]string{}
			for n, v := range m {
				if re.MatchString(n) {
					add[re.ReplaceAllString(n, rc.Repl)] = v
				}
			}
			for n, v := range add {
				m[n] = v
			}
		default:
			panic("harness: scrapemodel: unsupported relabel action " + rc.Action)
		}
	}
	for n, v := range m {
		if v == "" {
			delete(m, n)
		}
	}
	return true
}

func setOrDel(m map[string]string, n, v string) {
	if v == "" {
		delete(m, n)
	} else {
		m[n] = v
	}
}

// Mutate turns an exposed sample identity into the stored series: attach the target's labels (honor_labels rule),
// then metric_relabel_configs. ok=false: the sample is dropped by relabeling.
func Mutate(cfg *JobCfg, target Labels, s *Sample) (Labels, bool) {
	m := map[string]string{"__name__": s.Name}
	for _, l := range s.Labels {
		if l.V != "" {
			m[l.N] = l.V
		}
	}
	if cfg.HonorLabels {
		for _, tl := range target {
			if _, ok := m[tl.N]; !ok {
				m[tl.N] = tl.V
			}
		}
	} else {
		type kv struct{ n, v string }
		var conflicts []kv
		for _, tl := range target {
			if v, ok := m[tl.N]; ok {
				conflicts = append(conflicts, kv{tl.N, v})
			}
			m[tl.N] = tl.V
		}
		sort.SliceStable(conflicts, func(i, j int) bool { return len(conflicts[i].n) < len(conflicts[j].n) })
		for _, c := range conflicts {
			n := "exported_" + c.n
			for m[n] != "" {
				n = "exported_" + n
			}
			m[n] = c.v
		}
	}
	if !ApplyRelabel(m, cfg.Relabel) {
		return nil, false
	}
	return FromMap(m), true
}

// ReportLabels is the label set of a report series of the target.
func ReportLabels(name string, target Labels) Labels {
	m := map[string]string{"__name__": name}
	for _, tl := range target {
		m[tl.N] = tl.V
	}
	return FromMap(m)
}

// ReportNames lists the report series, in the documented order.
func ReportNames(extra bool) []string {
	n := []string{"up", "scrape_duration_seconds", "scrape_samples_scraped", "scrape_samples_post_metric_relabeling", "scrape_series_added"}
	if extra {
		n = append(n, "scrape_timeout_seconds", "scrape_sample_limit", "scrape_body_size_bytes")
	}
	return n
}

// bodyEval walks a body like the documentation describes a scrape: every sample is relabeled, checked against
// names / label limits, counted against sample_limit, and stored first-wins.
type bodyEval struct {
	ok            bool
	failKind      string
	failIdx       int // index of the sample at which the scrape is known to be failed (-1: only known at the end)
	samples       []XSample
	tracked       map[string]Labels
	exposed       map[string]bool // every stored series
	withTS        map[string]bool // stored series that only had explicit-timestamp samples (and tracking off)
	total         int
	post          int
	keys          []string          // pre-relabel keys of kept samples, in order (first occurrence only)
	prefixTracked map[string]Labels // series stored and tracked before the failure point (failed bodies)
	prefixKeys    []string
	dupAmbiguous  bool
	stats         map[string]int
	keysOf        map[string]map[string]bool
}

func evalBody(cfg *JobCfg, target Labels, samples []Sample, breakAt int, T int64) *bodyEval {
	ev := &bodyEval{ok: true, failIdx: -1, tracked: map[string]Labels{}, exposed: map[string]bool{}, withTS: map[string]bool{}, prefixTracked: map[string]Labels{}, stats: map[string]int{}, keysOf: map[string]map[string]bool{}}
	type st struct {
		series string
		t      int64
	}
	seen := map[st]bool{}
	seenKey := map[string]bool{}
	seenAny := map[string]bool{}
	kept := 0 // samples after relabeling (what sample_limit counts)
	keptDistinct := 0
	limitHit := false
	bucketHit := false
	n := len(samples)
	if breakAt >= 0 && breakAt < n {
		n = breakAt
	}
	for i := 0; i < n; i++ {
		s := &samples[i]
		ev.total++
		ls, keep := Mutate(cfg, target, s)
		if !keep {
			continue
		}
		if !ls.Has("__name__") {
			ev.ok, ev.failKind, ev.failIdx = false, "no-name", i
			break
		}
		if !validNames(ls, cfg.Legacy) {
			ev.ok, ev.failKind, ev.failIdx = false, "invalid-name", i
			break
		}
		if cfg.LabelLimit > 0 && len(ls) > cfg.LabelLimit {
			ev.ok, ev.failKind, ev.failIdx = false, "label_limit", i
			break
		}
		bad := false
		for _, l := range ls {
			if cfg.LabelNameLen > 0 && len(l.N) > cfg.LabelNameLen {
				ev.failKind, bad = "label_name_length_limit", true
			}
			if cfg.LabelValueLen > 0 && len(l.V) > cfg.LabelValueLen {
				ev.failKind, bad = "label_value_length_limit", true
			}
		}
		if bad {
			ev.ok, ev.failIdx = false, i
			break
		}
		ev.post++
		t := T
		explicit := s.HasTS && cfg.HonorTimestamps
		if explicit {
			t = s.TS
		}
		series := Canon(ls)
		k := st{series, t}
		dup := seen[k]
		// A repeated identifier without timestamp is a duplicate whatever else it carries; whether such a line still
		// counts against the limits is not documented (sameKeyDup verdicts that matter are flagged as ambiguous).
		key := s.Key()
		sameKeyDup := seenAny[key] && !explicit
		seenAny[key] = true
		h := s.Hist
		if h != nil && cfg.BucketLimit > 0 && h.NBuckets() > cfg.BucketLimit {
			// "The resolution of a histogram with more buckets will be reduced until the number of buckets is
			// within the limit. If the limit cannot be reached, the scrape will fail."
			r := h
			for r.NBuckets() > cfg.BucketLimit && r.Custom == nil && r.Schema > -4 {
				r = r.Reduce(r.Schema - 1)
			}
			if r.NBuckets() > cfg.BucketLimit {
				if sameKeyDup {
					ev.dupAmbiguous = true
					continue
				}
				// (a histogram refused for its buckets is not one of the samples sample_limit counts; this only
				// matters for which part of a failed body had been accepted, see TagPartial)
				if !bucketHit {
					bucketHit = true
					if ev.failIdx < 0 {
						ev.failIdx = i
					}
				}
				continue
			}
			h = r
			ev.stats["histograms_reduced_by_bucket_limit"]++
		}
		kept++
		if !sameKeyDup {
			keptDistinct++
		}
		if cfg.SampleLimit > 0 && kept > cfg.SampleLimit {
			if keptDistinct <= cfg.SampleLimit {
				// Only duplicates push the count over the limit: the documentation does not say whether a
				// duplicate counts. The generator keeps away from this; flag it for the caller.
				ev.dupAmbiguous = true
			}
			if !limitHit {
				limitHit = true
				if ev.failIdx < 0 {
					ev.failIdx = i
				}
			}
			continue
		}
		if limitHit {
			continue // nothing is accepted any more once the sample limit is exceeded
		}
		if !seenKey[key] {
			seenKey[key] = true
			ev.keys = append(ev.keys, key)
		}
		if ev.keysOf[series] == nil {
			ev.keysOf[series] = map[string]bool{}
		}
		ev.keysOf[series][key] = true
		// staleness tracking follows exposure: a series that was exposed without explicit timestamp (or at all, with
		// track_timestamps_staleness) is tracked, also when that particular sample lost against an earlier one for
		// the same (series, timestamp)
		ev.exposed[series] = true
		if explicit {
			ev.stats["explicit_timestamp_samples"]++
		}
		if dup {
			ev.stats["duplicate_samples"]++
		}
		if h != nil {
			ev.stats["native_histogram_samples"]++
		}
		if s.Group > 0 {
			ev.stats["classic_histogram_component_samples"]++
		}
		if !explicit || cfg.TrackTS {
			ev.tracked[series] = ls
			delete(ev.withTS, series)
		} else if ev.tracked[series] == nil {
			ev.withTS[series] = true
		}
		if dup {
			continue
		}
		seen[k] = true
		xs := XSample{Series: series, Labels: ls, T: t, Val: s.Val, Hist: h}
		ev.samples = append(ev.samples, xs)
	}
	switch {
	case !ev.ok:
	case limitHit:
		ev.ok, ev.failKind = false, "sample_limit"
	case bucketHit:
		ev.ok, ev.failKind = false, "bucket_limit"
	case breakAt >= 0:
		ev.ok, ev.failKind = false, "parse"
		if ev.failIdx < 0 {
			ev.failIdx = n
		}
	}
	if !ev.ok {
		// what had been accepted before the scrape turned out to be a failure
		ev.prefixTracked = ev.tracked
		ev.prefixKeys = ev.keys
	}
	return ev
}

// DupAmbiguous reports whether sample_limit's verdict on this body depends on whether duplicates count.
func DupAmbiguous(cfg *JobCfg, target Labels, samples []Sample) bool {
	return evalBody(cfg, target, samples, -1, 0).dupAmbiguous
}

// BodyVerdict is used by the workload generator to steer: would this body make the scrape fail, at which sample,
// and which stored+tracked series precede that point.
func BodyVerdict(cfg *JobCfg, target Labels, samples []Sample, breakAt int) (ok bool, kind string, failIdx int, prefixTracked int) {
	ev := evalBody(cfg, target, samples, breakAt, 0)
	if ev.ok {
		return true, "", -1, 0
	}
	return false, ev.failKind, ev.failIdx, len(ev.prefixTracked)
}

// Step consumes one scrape of the lifetime and returns what it must have written at scrape time T (ms).
func (lt *Lifetime) Step(cfg *JobCfg, target Labels, sv *Served, T int64) *Expect {
	x := &Expect{T: T, Markers: map[string]Labels{}, KnownMissing: map[string]string{}, KnownExtra: map[string]string{}}
	lt.Scrapes++
	failAll := func(kind string) {
		x.Up, x.FailKind = false, kind
		for s, ls := range lt.Tracked {
			x.Markers[s] = ls
		}
	}
	phantomPrev := lt.Phantom
	lt.Phantom = map[string]Labels{}
	switch sv.Class {
	case ServedHTTPFail:
		failAll("http")
		x.Scraped, x.Post, x.Added = exact(0), exact(0), exact(0)
		x.BodyBytes = []float64{0}
		if sv.TooLarge {
			x.BodyBytes = []float64{-1}
		}
		if sv.TooLargeMaybe {
			x.BodyBytes = []float64{0, -1}
		}
		for s := range phantomPrev {
			if _, ok := x.Markers[s]; !ok {
				x.KnownExtra[s] = TagPartial
			}
		}
		lt.Tracked = map[string]Labels{}
		return x
	case ServedBadFormat:
		failAll("format")
		x.Scraped, x.Post, x.Added = exact(0), exact(0), exact(0)
		x.BodyBytes = []float64{0, float64(sv.BodyLen)}
		for s := range phantomPrev {
			if _, ok := x.Markers[s]; !ok {
				x.KnownExtra[s] = TagPartial
			}
		}
		lt.Tracked = map[string]Labels{}
		return x
	}
	breakAt := -1
	if sv.Class == ServedGarbage {
		breakAt = sv.BreakAt
	}
	ev := evalBody(cfg, target, sv.Samples, breakAt, T)
	x.Ambiguous = ev.dupAmbiguous
	if !ev.ok {
		failAll(ev.failKind)
		x.BodyBytes = []float64{0, float64(sv.BodyLen)}
		switch ev.failKind {
		case "sample_limit", "bucket_limit":
			// the whole body is still counted ("so we report the correct total number of samples scraped")
			x.Scraped, x.Post = exact(ev.total), exact(ev.post)
		default:
			x.Scraped = Range{0, ev.total + 1}
			x.Post = Range{0, ev.post + 1}
			if ev.failIdx == 0 {
				x.Scraped, x.Post = Range{0, 1}, exact(0)
			}
		}
		x.Added = Range{0, len(ev.prefixKeys)}
		// Known deviation: series stored (then rolled back) before the failure point keep being tracked and are
		// not marked stale now; they are marked later instead.
		for s, ls := range ev.prefixTracked {
			if _, ok := x.Markers[s]; ok {
				x.KnownMissing[s] = TagPartial
			}
			lt.Phantom[s] = ls
		}
		for s := range phantomPrev {
			if _, ok := x.Markers[s]; !ok && ev.prefixTracked[s] == nil {
				x.KnownExtra[s] = TagPartial
			}
		}
		if len(ev.prefixKeys) > 0 {
			lt.Uncertain = true
		}
		lt.Tracked = map[string]Labels{}
		return x
	}
	x.Up = true
	x.Stats = ev.stats
	x.Samples = ev.samples
	x.Scraped, x.Post = exact(ev.total), exact(ev.post)
	x.BodyBytes = []float64{float64(sv.BodyLen)}
	for s, ls := range lt.Tracked {
		if !ev.exposed[s] {
			x.Markers[s] = ls
		} else if ev.tracked[s] == nil {
			// still exposed, but now only with explicit timestamps and tracking off: the statement asks for a marker
			// only when the series "stopped being exposed"; the implementation is known to write one.
			x.KnownExtra[s] = TagModeSwitch
		}
	}
	for s := range phantomPrev {
		if _, ok := x.Markers[s]; !ok && ev.tracked[s] == nil {
			x.KnownExtra[s] = TagPartial
		}
	}
	lo, hi := 0, 0
	for _, k := range ev.keys {
		if !lt.SeenKeys[k] {
			hi++
		}
	}
	for s := range ev.exposed {
		if !lt.SeenSeries[s] {
			lo++
		}
	}
	if lt.Uncertain {
		lo, hi = 0, len(ev.keys)
	}
	if lo > hi {
		lo = 0
	}
	x.Added = Range{lo, hi}
	x.MultiEntry = map[string]bool{}
	for s, ks := range ev.keysOf {
		all := map[string]bool{}
		for k := range ks {
			all[k] = true
		}
		for k := range lt.KeysOf[s] {
			all[k] = true
		}
		if len(all) > 1 {
			x.MultiEntry[s] = true
		}
	}
	if len(sv.Samples) > 0 {
		lt.KeysOf = ev.keysOf
		lt.SeenKeys = map[string]bool{}
		for _, k := range ev.keys {
			lt.SeenKeys[k] = true
		}
		lt.SeenSeries = ev.exposed
		lt.Uncertain = false
	} else {
		// A successful scrape that exposed nothing: whether the series seen before count as "new" when they come
		// back is not documented.
		lt.Uncertain = true
	}
	lt.Tracked = ev.tracked
	return x
}

// EndOfRun returns the series that must be marked stale when the target goes away.
func (lt *Lifetime) EndOfRun() (markers map[string]Labels, knownExtra map[string]string) {
	markers = map[string]Labels{}
	knownExtra = map[string]string{}
	for s, ls := range lt.Tracked {
		markers[s] = ls
	}
	for s := range lt.Phantom {
		if _, ok := markers[s]; !ok {
			knownExtra[s] = TagPartial
		}
	}
	return markers, knownExtra
}
