// Package tsdbmodel is the executable reference model of the TSDB used as the
// oracle by the tsdbsim engines. It is written from the property statements
// (C01, C02, C20, ...) and the storage package documentation, not from the
// implementation: a map series -> timestamp -> set of candidate values, plus
// the admission rules of C02.
package tsdbmodel

import (
	"fmt"
	"math"
	"sort"

	"github.com/prometheus/prometheus/model/histogram"
	"github.com/prometheus/prometheus/model/value"
)

// Kind of a sample value.
type Kind int

const (
	KFloat Kind = iota
	KHist
	KFHist
)

func (k Kind) String() string { return [...]string{"float", "hist", "fhist"}[k] }

// Sample is one (t, value).
type Sample struct {
	T    int64
	Kind Kind
	F    float64
	H    *histogram.Histogram
	FH   *histogram.FloatHistogram
}

// IsStale reports whether the value is a staleness marker of any kind.
func (s Sample) IsStale() bool {
	switch s.Kind {
	case KFloat:
		return value.IsStaleNaN(s.F)
	case KHist:
		return s.H != nil && value.IsStaleNaN(s.H.Sum)
	default:
		return s.FH != nil && value.IsStaleNaN(s.FH.Sum)
	}
}

func (s Sample) String() string {
	switch s.Kind {
	case KFloat:
		if value.IsStaleNaN(s.F) {
			return fmt.Sprintf("%d:stale", s.T)
		}
		return fmt.Sprintf("%d:%v", s.T, s.F)
	case KHist:
		if s.IsStale() {
			return fmt.Sprintf("%d:h-stale", s.T)
		}
		return fmt.Sprintf("%d:h{sum=%v cnt=%d sch=%d}", s.T, s.H.Sum, s.H.Count, s.H.Schema)
	default:
		if s.IsStale() {
			return fmt.Sprintf("%d:fh-stale", s.T)
		}
		return fmt.Sprintf("%d:fh{sum=%v cnt=%v sch=%d}", s.T, s.FH.Sum, s.FH.Count, s.FH.Schema)
	}
}

// bucketMapInt expands spans + delta-encoded buckets into index -> absolute count.
func bucketMapInt(spans []histogram.Span, deltas []int64) map[int32]int64 {
	m := map[int32]int64{}
	var idx int32
	var cur int64
	bi := 0
	for si, sp := range spans {
		if si == 0 {
			idx = sp.Offset
		} else {
			idx += sp.Offset
		}
		for j := uint32(0); j < sp.Length; j++ {
			if bi >= len(deltas) {
				return m
			}
			cur += deltas[bi]
			bi++
			if cur != 0 {
				m[idx] = cur
			}
			idx++
		}
	}
	return m
}

func bucketMapFloat(spans []histogram.Span, vals []float64) map[int32]float64 {
	m := map[int32]float64{}
	var idx int32
	bi := 0
	for si, sp := range spans {
		if si == 0 {
			idx = sp.Offset
		} else {
			idx += sp.Offset
		}
		for j := uint32(0); j < sp.Length; j++ {
			if bi >= len(vals) {
				return m
			}
			if vals[bi] != 0 {
				m[idx] = vals[bi]
			}
			bi++
			idx++
		}
	}
	return m
}

func eqMapI(a, b map[int32]int64) bool {
	if len(a) != len(b) {
		return false
	}
	for k, v := range a {
		if b[k] != v {
			return false
		}
	}
	return true
}

func eqMapF(a, b map[int32]float64) bool {
	if len(a) != len(b) {
		return false
	}
	for k, v := range a {
		w, ok := b[k]
		if !ok || math.Float64bits(v) != math.Float64bits(w) {
			return false
		}
	}
	return true
}

func eqBounds(a, b []float64) bool {
	if len(a) != len(b) {
		return false
	}
	for i := range a {
		if math.Float64bits(a[i]) != math.Float64bits(b[i]) {
			return false
		}
	}
	return true
}

// HistEqual compares schema, zero threshold, custom bounds, count, sum (bitwise), zero count and
// the count of every bucket (absent == 0). The counter-reset hint is not compared (C12 has its own rule).
func HistEqual(a, b *histogram.Histogram) bool {
	if a == nil || b == nil {
		return a == b
	}
	if value.IsStaleNaN(a.Sum) || value.IsStaleNaN(b.Sum) {
		return value.IsStaleNaN(a.Sum) && value.IsStaleNaN(b.Sum)
	}
	return a.Schema == b.Schema && math.Float64bits(a.ZeroThreshold) == math.Float64bits(b.ZeroThreshold) &&
		a.Count == b.Count && a.ZeroCount == b.ZeroCount && math.Float64bits(a.Sum) == math.Float64bits(b.Sum) &&
		eqBounds(a.CustomValues, b.CustomValues) &&
		eqMapI(bucketMapInt(a.PositiveSpans, a.PositiveBuckets), bucketMapInt(b.PositiveSpans, b.PositiveBuckets)) &&
		eqMapI(bucketMapInt(a.NegativeSpans, a.NegativeBuckets), bucketMapInt(b.NegativeSpans, b.NegativeBuckets))
}

// FHistEqual is HistEqual for float histograms.
func FHistEqual(a, b *histogram.FloatHistogram) bool {
	if a == nil || b == nil {
		return a == b
	}
	if value.IsStaleNaN(a.Sum) || value.IsStaleNaN(b.Sum) {
		return value.IsStaleNaN(a.Sum) && value.IsStaleNaN(b.Sum)
	}
	return a.Schema == b.Schema && math.Float64bits(a.ZeroThreshold) == math.Float64bits(b.ZeroThreshold) &&
		math.Float64bits(a.Count) == math.Float64bits(b.Count) && math.Float64bits(a.ZeroCount) == math.Float64bits(b.ZeroCount) &&
		math.Float64bits(a.Sum) == math.Float64bits(b.Sum) && eqBounds(a.CustomValues, b.CustomValues) &&
		eqMapF(bucketMapFloat(a.PositiveSpans, a.PositiveBuckets), bucketMapFloat(b.PositiveSpans, b.PositiveBuckets)) &&
		eqMapF(bucketMapFloat(a.NegativeSpans, a.NegativeBuckets), bucketMapFloat(b.NegativeSpans, b.NegativeBuckets))
}

// ValueEqual compares two samples' values (kind + bits / histogram contents), not timestamps.
// Staleness markers of any kind compare equal to each other: a float staleness marker appended to
// a histogram series is stored as a histogram staleness marker by design.
func ValueEqual(a, b Sample) bool {
	if a.IsStale() || b.IsStale() {
		return a.IsStale() && b.IsStale()
	}
	if a.Kind != b.Kind {
		return false
	}
	switch a.Kind {
	case KFloat:
		return math.Float64bits(a.F) == math.Float64bits(b.F)
	case KHist:
		return HistEqual(a.H, b.H)
	default:
		return FHistEqual(a.FH, b.FH)
	}
}

// NumBuckets of a histogram value as the head counts them (len of bucket slices).
func (s Sample) NumBuckets() int {
	switch s.Kind {
	case KHist:
		return len(s.H.PositiveBuckets) + len(s.H.NegativeBuckets)
	case KFHist:
		return len(s.FH.PositiveBuckets) + len(s.FH.NegativeBuckets)
	}
	return 0
}

// NonZeroBuckets counts populated buckets.
func (s Sample) NonZeroBuckets() int {
	switch s.Kind {
	case KHist:
		return len(bucketMapInt(s.H.PositiveSpans, s.H.PositiveBuckets)) + len(bucketMapInt(s.H.NegativeSpans, s.H.NegativeBuckets))
	case KFHist:
		return len(bucketMapFloat(s.FH.PositiveSpans, s.FH.PositiveBuckets)) + len(bucketMapFloat(s.FH.NegativeSpans, s.FH.NegativeBuckets))
	}
	return 0
}

// SortedTimes returns the keys of m in increasing order.
func SortedTimes[V any](m map[int64]V) []int64 {
	ts := make([]int64, 0, len(m))
	for t := range m {
		ts = append(ts, t)
	}
	sort.Slice(ts, func(i, j int) bool { return ts[i] < ts[j] })
	return ts
}
