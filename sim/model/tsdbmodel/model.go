package tsdbmodel

import (
	"fmt"
	"math"
	"sort"
	"strings"

	"github.com/prometheus/prometheus/model/histogram"
	"github.com/prometheus/prometheus/model/labels"
)

// Outcome class of an append, as named by C02.
type Outcome int

const (
	OK Outcome = iota
	OutOfBounds
	OutOfOrder
	TooOld
	Duplicate
	Invalid // anything else (invalid sample etc.)
)

func (o Outcome) String() string {
	return [...]string{"ok", "out-of-bounds", "out-of-order", "too-old", "duplicate", "invalid"}[o]
}

// Cell is what the model knows about one (series, t).
type Cell struct {
	Cands []Sample // values stored at t (any one may be returned)
	// Optional: the statement leaves open whether the sample is stored (documented ambiguity); it may be absent.
	Optional bool
	// OOOHead: a copy of this sample was stored through the out-of-order path and has not been compacted yet.
	OOOHead bool
	// Zombie: the out-of-order copy was compacted into a block and garbage collected from memory, but its
	// m-mapped chunk may still be on disk and is loaded again at the next restart.
	Zombie bool
	// Known-finding bookkeeping (only in runs that deliberately exercise a listed finding):
	// KF names the finding; Deleted means the statement wants the cell absent (it was deleted) and
	// only the finding can make it appear; otherwise only the finding can make it disappear.
	KF      string
	Deleted bool
	// DelEpoch: process lifetime (restart count) in which the cell was deleted. With AfterRestartOnly the
	// finding can only show after a later restart; within the same lifetime reappearance is a plain violation.
	DelEpoch         int
	AfterRestartOnly bool
	// KFFromEpoch: the finding named by KF can only make the cell disappear from this process lifetime on.
	KFFromEpoch int
	// KFCands are values that only the finding KFCandTag can produce at this timestamp.
	KFCands   []Sample
	KFCandTag string
}

func (c *Cell) clone() *Cell {
	n := *c
	n.Cands = append([]Sample(nil), c.Cands...)
	n.KFCands = append([]Sample(nil), c.KFCands...)
	return &n
}

// Has reports whether v is one of the candidate values.
func (c *Cell) Has(v Sample) bool {
	for _, x := range c.Cands {
		if ValueEqual(x, v) {
			return true
		}
	}
	return false
}

// Series is the model of one label set.
type Series struct {
	Idx     int
	Labels  labels.Labels
	Cells   map[int64]*Cell
	Last    *Sample        // newest in-order sample held by the head for this series (nil: none)
	InHead  bool           // series currently exists in the head
	OOOOpen map[int64]bool // timestamps that may sit in the open out-of-order chunk
	// HeadDeleted: ranges deleted so far (only consulted in known-finding runs: a head tombstone hides
	// samples appended into its range after the deletion).
	HeadDeleted [][2]int64
	// MultiRef: the series has been known under more than one ref (re-created after garbage collection).
	MultiRef bool
	// EverCreated: the series has existed in the head at some point.
	EverCreated bool
	// GCd: the series left the head at least once (garbage collection or eviction).
	GCd bool
	// OrphanTainted: some sample of the series was logged before its series record (known finding).
	OrphanTainted bool
}

// Model is the reference state.
// TagZombieDelete is the known finding: head chunks that were m-mapped and later truncated from memory stay in
// their chunks_head file; when no block covers their range (e.g. the compacted range was fully deleted, so no
// block was written) a restart loads them again and deleted samples reappear.
const TagZombieDelete = "deleted-head-samples-reappear-after-restart"

// TagMixedBlock is the known finding: an out-of-order block merged with an older in-order block loses its
// out-of-order hint, its MaxTime then counts for the WAL replay cut-off although the in-order head data of that
// range was never compacted, and a restart drops those samples.
const TagMixedBlock = "restart-drops-head-samples-below-merged-ooo-block-maxt"

type Model struct {
	// Epoch counts restarts (process lifetimes).
	Epoch int
	// OpenCutoff is the WAL replay cut-off (highest MaxTime of the in-order blocks) the current process
	// lifetime started with: deleted samples below it cannot have come back through the WAL or head chunk files.
	OpenCutoff int64
	// KFRun: this run exercises listed known findings; cells they can affect are tagged instead of judged.
	KFRun  bool
	Series []*Series
	// Acknowledged deletions are applied eagerly to Cells; the list is kept for reporting.
	Deletes int
}

// New creates a model over the given label sets.
func New(lsets []labels.Labels) *Model {
	m := &Model{}
	for i, l := range lsets {
		m.Series = append(m.Series, &Series{Idx: i, Labels: l, Cells: map[int64]*Cell{}, OOOOpen: map[int64]bool{}})
	}
	return m
}

// Clone deep-copies the model (values are immutable and shared).
func (m *Model) Clone() *Model {
	n := &Model{Deletes: m.Deletes, KFRun: m.KFRun, Epoch: m.Epoch, OpenCutoff: m.OpenCutoff}
	for _, s := range m.Series {
		ns := &Series{Idx: s.Idx, Labels: s.Labels, Cells: make(map[int64]*Cell, len(s.Cells)), InHead: s.InHead, OOOOpen: map[int64]bool{}}
		ns.HeadDeleted = append([][2]int64(nil), s.HeadDeleted...)
		ns.MultiRef, ns.EverCreated, ns.GCd, ns.OrphanTainted = s.MultiRef, s.EverCreated, s.GCd, s.OrphanTainted
		for t, c := range s.Cells {
			ns.Cells[t] = c.clone()
		}
		for t := range s.OOOOpen {
			ns.OOOOpen[t] = true
		}
		if s.Last != nil {
			l := *s.Last
			ns.Last = &l
		}
		n.Series = append(n.Series, ns)
	}
	return n
}

// Window is the appendable window observed when an appender was created.
type Window struct {
	Init      bool  // head was initialised at creation (else the first append initialises it)
	MinValid  int64 // max(headMaxt - chunkRange/2, head minValidTime)
	HeadMaxt  int64
	OOOWindow int64
}

// Pending is one accepted-but-uncommitted sample.
type Pending struct {
	Series   int
	S        Sample
	RejectOO bool   // appended with the reject-out-of-order option
	KF       string // known-finding tag for the cells this sample creates
}

// App is the model of an open appender.
type App struct {
	W       Window
	Pending []Pending
	// Covered reports whether a head tombstone of the series currently covers t (known finding TagTombHides).
	Covered func(series int, t int64) bool
	// OOOTag, if set, tags cells stored through the out-of-order path by this commit (known finding).
	OOOTag string
	// ReorderSeries: series for which a float staleness marker is followed by another sample in this transaction
	// (known finding stale-marker-commit-reorder, only exercised by C02 finding runs).
	ReorderSeries []int
}

// Decision is the model's verdict on one sample.
type Decision struct {
	Out   Outcome
	IsOOO bool // accepted into the out-of-order path
	NoOp  bool // exact duplicate of the newest in-order sample
	// Either: the statement does not pin the outcome; Alt is also acceptable.
	Either bool
	Alt    Outcome
	Cell   string // decision-table cell, for coverage counting
}

// Judge applies the C02 rules for sample v on series s under window w.
// last is the series' newest in-order sample as of now.
func Judge(w Window, last *Sample, v Sample, rejectOOO bool) Decision {
	pos := "above"
	if w.OOOWindow == 0 && v.T < w.MinValid {
		return Decision{Out: OutOfBounds, Cell: "oob-fast"}
	}
	if v.T >= w.MinValid {
		if last == nil {
			return Decision{Out: OK, Cell: "inorder-nolast"}
		}
		if v.T > last.T {
			return Decision{Out: OK, Cell: "inorder-newer"}
		}
		if v.T == last.T {
			// Re-appending the newest sample with a bit-identical value is a no-op; anything else is a duplicate.
			switch {
			case !last.IsStale() && !v.IsStale():
				if last.Kind == v.Kind && ValueEqual(*last, v) {
					return Decision{Out: OK, NoOp: true, Cell: "dup-identical-" + v.Kind.String()}
				}
				return Decision{Out: Duplicate, Cell: "dup-different-" + last.Kind.String() + "-" + v.Kind.String()}
			case last.IsStale() && v.IsStale():
				// Staleness markers change kind when stored (a float marker becomes a histogram marker when the
				// series' newest sample, or an earlier sample of the same appender, is a histogram); whether
				// re-appending the float marker then counts as bit-identical is not pinned by the statement.
				return Decision{Out: OK, NoOp: true, Either: true, Alt: Duplicate, Cell: "dup-stale-marker"}
			default:
				return Decision{Out: Duplicate, Cell: "dup-stale-vs-value"}
			}
		}
		pos = "older"
	} else {
		pos = "below-minvalid"
	}
	if w.OOOWindow > 0 && v.T >= w.HeadMaxt-w.OOOWindow {
		if rejectOOO {
			return Decision{Out: OutOfOrder, Cell: "ooo-rejected-by-option-" + pos}
		}
		return Decision{Out: OK, IsOOO: true, Cell: "ooo-accepted-" + pos}
	}
	if w.OOOWindow > 0 {
		return Decision{Out: TooOld, Cell: "too-old-" + pos}
	}
	if v.T < w.MinValid {
		return Decision{Out: OutOfBounds, Cell: "oob"}
	}
	return Decision{Out: OutOfOrder, Cell: "ooo-disabled"}
}

// Append judges an append through an open appender and, if accepted, queues it.
func (m *Model) Append(a *App, series int, v Sample, rejectOOO bool) Decision {
	d := Judge(a.W, m.Series[series].Last, v, rejectOOO)
	return d
}

// Accept queues a sample that the implementation accepted.
func (a *App) Accept(series int, v Sample, rejectOOO bool, kf string) {
	a.Pending = append(a.Pending, Pending{Series: series, S: v, RejectOO: rejectOOO, KF: kf})
}

// CommitEffect describes what a commit did, for probes.
type CommitEffect struct {
	InOrder, OOO, NoOp, Dropped, Optional int
	MaxInOrder                            int64
	AnyInOrder                            bool
}

// Commit applies the pending samples in append order under the appender's window (C02, second sentence).
func (m *Model) Commit(a *App) CommitEffect {
	var eff CommitEffect
	eff.MaxInOrder = math.MinInt64
	for _, p := range a.Pending {
		s := m.Series[p.Series]
		v := p.S
		// A float staleness marker takes the kind of the series' newest sample when stored.
		if v.Kind == KFloat && v.IsStale() && s.Last != nil {
			switch s.Last.Kind {
			case KHist:
				v = Sample{T: v.T, Kind: KHist, H: &histogram.Histogram{Sum: v.F}}
			case KFHist:
				v = Sample{T: v.T, Kind: KFHist, FH: &histogram.FloatHistogram{Sum: v.F}}
			}
		}
		d := Judge(a.W, s.Last, v, false)
		switch {
		case d.Out != OK:
			eff.Dropped++
			// A sample dropped as a duplicate is still in the WAL; if the sample it lost against precedes its
			// series record in the WAL (TagOrphan), replay keeps this one instead.
			if c := s.Cells[v.T]; c != nil && c.KF == "wal-sample-before-series-record" {
				c.KFCands = append(c.KFCands, v)
				c.KFCandTag = c.KF
			} else if c == nil && s.OrphanTainted {
				// ... and a sample dropped because a sample that replay will lose made it out-of-order may be
				// replayed in its place.
				s.Cells[v.T] = &Cell{Cands: []Sample{v}, Deleted: true, KF: "wal-sample-before-series-record"}
			}
		case d.NoOp:
			eff.NoOp++
		case d.IsOOO:
			// "as if it had been appended separately": with the reject option it would have been refused,
			// the implementation is free to store it (the option is only consulted at append time).
			c := s.cell(v.T)
			if c.Deleted {
				*c = Cell{} // appended again after its deletion
			}
			if p.RejectOO && len(c.Cands) == 0 {
				c.Optional = true
				eff.Optional++
			}
			// An out-of-order sample whose timestamp already sits in the open out-of-order chunk is dropped;
			// with another copy elsewhere both values are candidates.
			c.Cands = append(c.Cands, v)
			c.OOOHead = true
			if p.KF != "" && len(c.Cands) == 1 {
				c.KF = p.KF
			}
			if len(c.Cands) == 1 && a.Covered != nil && a.Covered(p.Series, v.T) {
				c.KF = TagTombHides
			}
			if len(c.Cands) == 1 && c.KF == "" && s.inHeadDeleted(v.T) {
				c.KF, c.KFFromEpoch = TagTombHides, m.Epoch+1
			}
			if s.MultiRef && len(c.Cands) == 1 && c.KF == "" {
				c.KF = TagOOODupRef
			}
			if a.OOOTag != "" && len(c.Cands) == 1 && c.KF == "" {
				c.KF = a.OOOTag
			}
			s.OOOOpen[v.T] = true
			s.InHead = true
			eff.OOO++
		default:
			c := s.cell(v.T)
			if c.Deleted {
				*c = Cell{} // appended again after its deletion
			}
			c.Cands = append(c.Cands, v)
			c.Optional = false
			if p.KF != "" && len(c.Cands) == 1 {
				c.KF = p.KF
			}
			if p.KF == "wal-sample-before-series-record" {
				s.OrphanTainted = true
			}
			if len(c.Cands) == 1 && a.Covered != nil && a.Covered(p.Series, v.T) {
				c.KF = TagTombHides
			}
			if len(c.Cands) == 1 && c.KF == "" && s.inHeadDeleted(v.T) {
				c.KF, c.KFFromEpoch = TagTombHides, m.Epoch+1
			}
			if len(c.Cands) == 1 && c.KF == "" && s.MaxOOOHeadT() > v.T {
				c.KF = TagReplayOrder
			}
			vv := v
			s.Last = &vv
			s.InHead = true
			eff.InOrder++
			eff.AnyInOrder = true
			if v.T > eff.MaxInOrder {
				eff.MaxInOrder = v.T
			}
		}
	}
	// Known finding stale-marker-commit-reorder: the converted marker is committed after the later samples of
	// the batch; the marker may be missing, and a later sample with the marker's timestamp may be stored instead.
	for _, si := range a.ReorderSeries {
		s := m.Series[si]
		// every sample of the series in this transaction may have been stored, dropped or replaced differently
		for _, p := range a.Pending {
			if p.Series != si {
				continue
			}
			c := s.Cells[p.S.T]
			if c == nil {
				c = &Cell{Cands: []Sample{p.S}, Deleted: true}
				s.Cells[p.S.T] = c
			}
			c.KF = "stale-marker-commit-reorder"
			c.KFCandTag = "stale-marker-commit-reorder"
			for _, q := range a.Pending {
				if q.Series == si && q.S.T == p.S.T && !c.Has(q.S) {
					c.KFCands = append(c.KFCands, q.S)
					if q.S.IsStale() { // the marker may be stored with the histogram kind
						c.KFCands = append(c.KFCands, Sample{T: q.S.T, Kind: KHist, H: &histogram.Histogram{Sum: q.S.F}})
					}
				}
			}
		}
	}
	a.ReorderSeries = nil
	a.Pending = nil
	return eff
}

func (s *Series) hasKF(tag string) bool {
	for _, c := range s.Cells {
		if c.KF == tag && !c.Deleted {
			return true
		}
	}
	return false
}

func (s *Series) cell(t int64) *Cell {
	c := s.Cells[t]
	if c == nil {
		c = &Cell{}
		s.Cells[t] = c
	}
	return c
}

// TagOOODupRef is the known finding: WAL replay of a duplicate series record (series re-created under a new
// ref while the old record is still in the WAL) resets the series' m-mapped chunks to those of the duplicate
// ref and thereby drops out-of-order chunks written under the surviving ref.
const TagOOODupRef = "ooo-mmap-chunks-dropped-on-duplicate-series-record"

// TagRefReuse is the known finding: the chunk disk mapper restarts its file sequence once all head chunk files
// are deleted, so new out-of-order chunks get refs at or below stale garbage-collection markers
// (DB.lastGarbageCollectedMmapRef, Head.minOOOMmapRef) and are hidden from queries / collected early.
const TagRefReuse = "ooo-chunk-ref-reuse-after-all-head-chunk-files-deleted"

// TagReplayOrder is the known finding: out-of-order samples are also in the WAL; at replay a sample that was
// out-of-order only because it was below the appender's window (not older than the series' newest sample) is
// appended in-order, and an in-order sample with a smaller timestamp that an older appender committed later is
// then dropped as out-of-order.
const TagReplayOrder = "inorder-sample-lost-at-replay-after-newer-ooo-sample"

// MaxOOOHeadT returns the largest timestamp held in the out-of-order head for the series (MinInt64 if none).
func (s *Series) MaxOOOHeadT() int64 {
	m := int64(math.MinInt64)
	for t, c := range s.Cells {
		if c.OOOHead && !c.Deleted && t > m {
			m = t
		}
	}
	return m
}

// TagWBLSkipped is the known finding: when WAL replay ends in a corruption error (torn tail after a kill inside a
// multi-page write) Head.Init returns before replaying the WBL; DB.Open repairs the WAL and carries on, so the
// out-of-order samples of the head are missing until the next restart.
const TagWBLSkipped = "wbl-not-replayed-after-wal-repair"

// TagOOOHeadCells tags every cell that has a copy only reachable through the out-of-order head.
func (m *Model) TagOOOHeadCells(tag string) {
	for _, s := range m.Series {
		for _, c := range s.Cells {
			if c.OOOHead && c.KF == "" {
				c.KF = tag
			}
		}
	}
}

// TagTombHides is the known finding: a head tombstone hides samples appended into its range after the deletion.
const TagTombHides = "head-tombstone-hides-later-append"

// InHeadDeleted reports whether t lies in a range deleted earlier while the series was in the head.
func (s *Series) InHeadDeleted(t int64) bool { return s.inHeadDeleted(t) }

func (s *Series) inHeadDeleted(t int64) bool {
	for _, iv := range s.HeadDeleted {
		if t >= iv[0] && t <= iv[1] {
			return true
		}
	}
	return false
}

// TagDeleteMissesOOO is the known finding: Head.Delete clamps to the series' in-order range and so does not
// reach samples that sit in the out-of-order head.
const TagDeleteMissesOOO = "delete-misses-ooo-head"

// DeleteTouchesOOOHead reports whether a delete would cover a sample held in the out-of-order head.
func (m *Model) DeleteTouchesOOOHead(mint, maxt int64, match func(labels.Labels) bool) bool {
	for _, s := range m.Series {
		if !match(s.Labels) {
			continue
		}
		for t, c := range s.Cells {
			if t >= mint && t <= maxt && (c.OOOHead || c.Zombie) && !c.Deleted {
				return true
			}
		}
	}
	return false
}

// Delete removes [mint,maxt] from every series selected by match. Cells with a copy in the out-of-order
// head are kept as "deleted, may reappear only through the listed finding".
func (m *Model) Delete(mint, maxt int64, match func(labels.Labels) bool, headMin int64) (removed int) {
	for _, s := range m.Series {
		if !match(s.Labels) {
			continue
		}
		if s.Last != nil && s.InHead && mint <= s.Last.T {
			// the head tombstone (clamped to the series' newest in-order sample) is also logged to the WAL and
			// comes back at the next replay even after head truncation dropped it from memory
			hi := maxt
			if s.Last.T < hi {
				hi = s.Last.T
			}
			s.HeadDeleted = append(s.HeadDeleted, [2]int64{mint, hi})
		}
		for t, c := range s.Cells {
			if t >= mint && t <= maxt {
				switch {
				case c.OOOHead || c.Zombie:
					c.Deleted, c.KF, c.AfterRestartOnly = true, TagDeleteMissesOOO, false
				default:
					// Kept as "deleted": within this process lifetime it must never be returned again. After a
					// restart the listed finding can bring it back, but only if it is not below the replay
					// cut-off (PurgeDeletedBelow is called at every restart with that cut-off).
					c.Deleted, c.KF, c.AfterRestartOnly, c.DelEpoch = true, TagZombieDelete, true, m.Epoch
				}
				removed++
			}
		}
	}
	m.Deletes++
	return removed
}

// PurgeDeletedBelow forgets deleted cells older than the WAL replay cut-off b (the highest MaxTime of the
// in-order blocks on disk): neither the WAL nor head chunk files can bring those back, so a reappearance is an
// ordinary violation again.
func (m *Model) PurgeDeletedBelow(b int64) {
	for _, s := range m.Series {
		for t, c := range s.Cells {
			if c.Deleted && c.KF == TagZombieDelete && t < b {
				delete(s.Cells, t)
			}
		}
	}
}

// ClearOOOHead records that the out-of-order head was compacted into blocks.
func (m *Model) ClearOOOHead() {
	for _, s := range m.Series {
		for _, c := range s.Cells {
			if c.OOOHead {
				c.OOOHead, c.Zombie = false, true
			}
		}
		s.OOOOpen = map[int64]bool{}
	}
}

// Restarted records that m-mapped out-of-order chunks still on disk are loaded again.
func (m *Model) Restarted() {
	m.Epoch++
	for _, s := range m.Series {
		for _, c := range s.Cells {
			if c.Zombie {
				c.OOOHead = true
			}
		}
	}
}

// Times returns the timestamps of series s in [mint,maxt], sorted.
func (s *Series) Times(mint, maxt int64) []int64 {
	var ts []int64
	for t := range s.Cells {
		if t >= mint && t <= maxt {
			ts = append(ts, t)
		}
	}
	sort.Slice(ts, func(i, j int) bool { return ts[i] < ts[j] })
	return ts
}

// NumSamples counts cells.
func (m *Model) NumSamples() int {
	n := 0
	for _, s := range m.Series {
		n += len(s.Cells)
	}
	return n
}

// Compare checks a returned series against the bounds lower <= got <= upper:
// every non-optional cell of lower in range must be present; every returned sample must be a candidate of upper;
// timestamps strictly increasing. For a strict check pass lower == upper.
func Compare(lower, upper *Series, got []Sample, mint, maxt int64, minRequiredT int64, epoch int, openCutoff int64) []string {
	var errs []string
	prev := int64(math.MinInt64)
	seen := map[int64]bool{}
	for i, g := range got {
		if i > 0 && g.T <= prev {
			errs = append(errs, fmt.Sprintf("timestamps not strictly increasing at %d after %d", g.T, prev))
		}
		prev = g.T
		seen[g.T] = true
		if g.T < mint || g.T > maxt {
			errs = append(errs, fmt.Sprintf("sample %s outside queried range [%d,%d]", g, mint, maxt))
			continue
		}
		c := upper.Cells[g.T]
		if c == nil {
			errs = append(errs, fmt.Sprintf("unexpected sample %s: no stored, undeleted sample at that timestamp", g))
			continue
		}
		if !c.Has(g) {
			isKF := false
			for _, k := range c.KFCands {
				if ValueEqual(k, g) {
					isKF = true
				}
			}
			if isKF {
				errs = append(errs, fmt.Sprintf("KNOWN[%s] value %s returned instead of one of %v", c.KFCandTag, g, c.Cands))
			} else {
				errs = append(errs, fmt.Sprintf("wrong value %s: not one of the values stored at that timestamp %v", g, c.Cands))
			}
			continue
		}
		if c.Deleted {
			if c.AfterRestartOnly && (c.DelEpoch == epoch || g.T < openCutoff) {
				errs = append(errs, fmt.Sprintf("unexpected sample %s: it was deleted", g))
			} else {
				errs = append(errs, fmt.Sprintf("KNOWN[%s] deleted sample %s still returned", c.KF, g))
			}
		}
	}
	for t, c := range lower.Cells {
		if t < mint || t > maxt || c.Optional || c.Deleted || seen[t] || t < minRequiredT {
			continue
		}
		if c.KF != "" && epoch >= c.KFFromEpoch {
			errs = append(errs, fmt.Sprintf("KNOWN[%s] missing sample at t=%d (stored %v)", c.KF, t, c.Cands))
			continue
		}
		errs = append(errs, fmt.Sprintf("missing sample at t=%d (stored %v)", t, c.Cands))
	}
	sort.Strings(errs)
	return errs
}

// Describe renders a short description of the series content.
func (s *Series) Describe() string {
	var sb strings.Builder
	for _, t := range s.Times(math.MinInt64, math.MaxInt64) {
		c := s.Cells[t]
		fmt.Fprintf(&sb, "%d", t)
		if len(c.Cands) > 1 {
			fmt.Fprintf(&sb, "x%d", len(c.Cands))
		}
		if c.Optional {
			sb.WriteByte('?')
		}
		sb.WriteByte(' ')
	}
	return sb.String()
}
