// Package rwmodel is the reference model of remote-write delivery (property C40), written from the
// property statement and the documented configuration semantics (external labels are added to a series
// unless it already carries the label, write relabeling runs after that, dropped series are never sent,
// samples reach the endpoint per series in WAL order, duplicates only as retransmissions of a request whose
// response was lost). It knows nothing about shards, batches or back-off.
package rwmodel

import (
	"fmt"
	"sort"
	"strings"
)

// Kind of a delivered item.
const (
	Float = iota
	Hist
	FHist
	Exemplar
)

var kindNames = []string{"float", "hist", "fhist", "exemplar"}

func KindName(k int) string { return kindNames[k] }

// Requirement of an item of the expected history.
const (
	Must     = iota // written after the queue started, timestamp after the start time, series kept: has to arrive
	May             // may arrive or not (exemplars written before the start; input outside the claimed space)
	MustNot         // must never arrive (timestamp not after the queue's start time)
	Excluded = May
)

// Rule is one write-relabel rule of the restricted forms the simulator generates.
type Rule struct {
	Action      string   `json:"a"`           // drop | keep | labeldrop | replace
	Source      string   `json:"s,omitempty"` // drop/keep: the source label
	Values      []string `json:"v,omitempty"` // drop/keep: the alternatives of the anchored regex v1|v2|...; labeldrop: label names
	Target      string   `json:"t,omitempty"` // replace: target label
	Replacement string   `json:"r,omitempty"` // replace: static replacement (non-empty)
}

// Relabel returns the labels a series is sent with, or keep=false if write relabeling drops it.
func Relabel(in map[string]string, ext [][2]string, rules []Rule) (out map[string]string, keep bool) {
	out = map[string]string{}
	for k, v := range in {
		out[k] = v
	}
	for _, e := range ext {
		if out[e[0]] == "" {
			out[e[0]] = e[1]
		}
	}
	for _, r := range rules {
		switch r.Action {
		case "drop", "keep":
			match := false
			for _, v := range r.Values {
				if out[r.Source] == v {
					match = true
				}
			}
			if (r.Action == "drop" && match) || (r.Action == "keep" && !match) {
				return nil, false
			}
		case "labeldrop":
			for _, n := range r.Values {
				delete(out, n)
			}
		case "replace":
			out[r.Target] = r.Replacement
		default:
			panic("harness: rwmodel: unknown relabel action " + r.Action)
		}
	}
	for k, v := range out {
		if v == "" {
			delete(out, k)
		}
	}
	if len(out) == 0 {
		return nil, false
	}
	return out, true
}

// Key is the canonical form of a label set.
func Key(l map[string]string) string {
	ks := make([]string, 0, len(l))
	for k := range l {
		ks = append(ks, k)
	}
	sort.Strings(ks)
	var sb strings.Builder
	for i, k := range ks {
		if i > 0 {
			sb.WriteByte(',')
		}
		sb.WriteString(k)
		sb.WriteByte('=')
		sb.WriteString(l[k])
	}
	return sb.String()
}

// Item is one sample / histogram / exemplar of the expected history or of the endpoint's log.
type Item struct {
	Kind int
	T    int64
	Val  string // canonical value: float bits, canonical histogram, exemplar labels + bits
	Meta string // canonical metadata the item has to carry ("" = not checked)
	Req  int
	Op   int // producing operation (expected side) or request number (received side)
}

func (i Item) ID() string { return fmt.Sprintf("%s@%d=%s", kindNames[i.Kind], i.T, i.Val) }

type series struct {
	items []Item
	index map[string]int
}

// Model holds the expected history per output series.
type Model struct {
	series  map[string]*series
	order   []string
	dropped map[string]bool // canonical INPUT label sets of series dropped by relabeling (diagnostics)
	// Counts.
	NMust, NMustNot, NMay int
}

func New() *Model { return &Model{series: map[string]*series{}, dropped: map[string]bool{}} }

// Add appends an item to the expected history of an output series (call in WAL order).
func (m *Model) Add(key string, it Item) {
	s := m.series[key]
	if s == nil {
		s = &series{index: map[string]int{}}
		m.series[key] = s
		m.order = append(m.order, key)
	}
	id := it.ID()
	if _, dup := s.index[id]; dup {
		panic("harness: rwmodel: workload produced the same item twice: " + key + " " + id)
	}
	s.index[id] = len(s.items)
	s.items = append(s.items, it)
	switch it.Req {
	case Must:
		m.NMust++
	case MustNot:
		m.NMustNot++
	default:
		m.NMay++
	}
}

// Finding is one oracle failure.
type Finding struct {
	Oracle string
	Sig    string
	Detail string
}

// Got is one accepted item of the endpoint's canonical log (retransmissions after a lost response already removed).
type Got struct {
	Item
	At int64 // simulated ms of acceptance
}

// Outstanding returns the Must items not present in the log and not excused.
func (m *Model) Outstanding(log map[string][]Got, excused func(key string, it Item) bool) []string {
	var out []string
	for _, key := range m.order {
		s := m.series[key]
		have := map[string]bool{}
		for _, g := range log[key] {
			have[g.ID()] = true
		}
		for _, it := range s.items {
			if it.Req == Must && !have[it.ID()] && (excused == nil || !excused(key, it)) {
				out = append(out, key+" "+it.ID())
			}
		}
	}
	return out
}

// Check compares the endpoint's canonical log with the expected history.
//   - every logged series is an expected output series (no dropped series, no wrong labels);
//   - every logged item is an expected item of that series, not MustNot, with the expected metadata;
//   - per series and per class (samples, exemplars) the logged items are in WAL order and no item is logged twice;
//   - every Must item is logged unless excused (accounted drop by age, request rejected as non-recoverable).
func (m *Model) Check(log map[string][]Got, excused func(key string, it Item) bool) []Finding {
	var fs []Finding
	add := func(o, sig, f string, a ...any) {
		if len(fs) < 12 {
			fs = append(fs, Finding{o, sig, fmt.Sprintf(f, a...)})
		}
	}
	keys := make([]string, 0, len(log))
	for k := range log {
		keys = append(keys, k)
	}
	sort.Strings(keys)
	for _, key := range keys {
		s := m.series[key]
		if s == nil {
			add("labels", "unexpected-series", "endpoint accepted %d items for series {%s} which is not an expected output series (dropped by relabeling, or sent with wrong labels); first: %s", len(log[key]), key, log[key][0].ID())
			continue
		}
		last := [2]int{-1, -1}
		seen := map[int]bool{}
		for _, g := range log[key] {
			idx, ok := s.index[g.ID()]
			if !ok {
				add("content", "unexpected-item-"+kindNames[g.Kind], "series {%s}: endpoint accepted %s (request %d) which was never written", key, g.ID(), g.Op)
				continue
			}
			exp := s.items[idx]
			if exp.Req == MustNot {
				add("start-time", "must-not-"+kindNames[g.Kind], "series {%s}: endpoint accepted %s (request %d) although its timestamp is not after the queue start", key, g.ID(), g.Op)
			}
			if seen[idx] {
				add("duplicate", "duplicate-"+kindNames[g.Kind], "series {%s}: %s accepted twice (request %d) and not as the retransmission of a request whose response was lost", key, g.ID(), g.Op)
				continue
			}
			seen[idx] = true
			cl := 0
			if g.Kind == Exemplar {
				cl = 1
			}
			if idx < last[cl] {
				add("order", "out-of-order-"+kindNames[g.Kind], "series {%s}: %s (written by op %d, request %d) accepted after a later-written item %s", key, g.ID(), exp.Op, g.Op, s.items[last[cl]].ID())
			} else {
				last[cl] = idx
			}
			if exp.Meta != "" && g.Meta != exp.Meta {
				add("metadata", "metadata-"+kindNames[g.Kind], "series {%s}: %s carried metadata %q, expected %q", key, g.ID(), g.Meta, exp.Meta)
			}
		}
	}
	for _, key := range m.order {
		s := m.series[key]
		have := map[string]bool{}
		for _, g := range log[key] {
			have[g.ID()] = true
		}
		for _, it := range s.items {
			if it.Req == Must && !have[it.ID()] && (excused == nil || !excused(key, it)) {
				add("missing", "missing-"+kindNames[it.Kind], "series {%s}: %s (written by op %d) was never accepted by the endpoint", key, it.ID(), it.Op)
			}
		}
	}
	return fs
}
