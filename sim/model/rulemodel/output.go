package rulemodel

import (
	"sort"

	"github.com/prometheus/prometheus/model/labels"
)

// Write is one expected append of a rule evaluation.
type Write struct {
	L        labels.Labels
	T        int64
	V        float64
	Optional bool // allowed but not required (see RuleOut.Opt)
}

// RuleOut is the per-rule bookkeeping behind "a staleness marker for every series produced by the
// previous successful evaluation but not by this one".
type RuleOut struct {
	// Prev: series stored by the previous successful evaluation.
	Prev map[string]labels.Labels
	// Opt: series the previous successful evaluation produced (or had to mark stale) but whose append
	// the storage refused. The statement is silent about them: a staleness marker is accepted, not required.
	Opt map[string]labels.Labels
}

func sortedKeys(m map[string]labels.Labels) []string {
	ks := make([]string, 0, len(m))
	for k := range m {
		ks = append(ks, k)
	}
	sort.Strings(ks)
	return ks
}

// Plan returns the appends a successful evaluation with result vec is expected to make at time t.
func (o *RuleOut) Plan(vec []OutSample, t int64) []Write {
	var ws []Write
	now := map[string]bool{}
	for _, s := range vec {
		now[Key(s.L)] = true
		ws = append(ws, Write{L: s.L, T: t, V: s.V})
	}
	for _, k := range sortedKeys(o.Prev) {
		if !now[k] {
			ws = append(ws, Write{L: o.Prev[k], T: t, V: StaleNaN})
		}
	}
	for _, k := range sortedKeys(o.Opt) {
		if _, inPrev := o.Prev[k]; !now[k] && !inPrev {
			ws = append(ws, Write{L: o.Opt[k], T: t, V: StaleNaN, Optional: true})
		}
	}
	return ws
}

// Commit records a successful evaluation. refused holds the keys of the planned writes the storage
// did not take.
func (o *RuleOut) Commit(plan []Write, vec []OutSample, refused map[string]bool) {
	prev := map[string]labels.Labels{}
	opt := map[string]labels.Labels{}
	for _, s := range vec {
		k := Key(s.L)
		if refused[k] {
			opt[k] = s.L
		} else {
			prev[k] = s.L
		}
	}
	for _, w := range plan {
		if IsStale(w.V) && !w.Optional && refused[Key(w.L)] {
			opt[Key(w.L)] = w.L
		}
	}
	o.Prev, o.Opt = prev, opt
}

// All returns every series the rule may still have to mark stale (for reloads that remove the rule).
func (o *RuleOut) All() (required, optional []labels.Labels) {
	for _, k := range sortedKeys(o.Prev) {
		required = append(required, o.Prev[k])
	}
	for _, k := range sortedKeys(o.Opt) {
		if _, ok := o.Prev[k]; !ok {
			optional = append(optional, o.Opt[k])
		}
	}
	return
}
