package rulemodel

import (
	"fmt"
	"sort"
	"strings"
	"time"

	"github.com/prometheus/prometheus/model/labels"
)

// ResolvedRetention is the documented period for which a resolved alert is kept (and re-sent).
const ResolvedRetention = 15 * time.Minute

// AState is the state of one alert instance.
type AState int

const (
	Inactive AState = iota + 1 // resolved, still retained
	Pending
	Firing
)

func (s AState) String() string {
	switch s {
	case Inactive:
		return "inactive"
	case Pending:
		return "pending"
	case Firing:
		return "firing"
	}
	return "?"
}

// LabelT is a (possibly templated) label or annotation of an alerting rule. K:
//
//	""       static value V
//	"label"  {{ $labels.<V> }}
//	"gt"     {{ if gt $value <C> }}hi{{ else }}lo{{ end }}
//	"value"  v={{ $value }}
type LabelT struct {
	N string  `json:"n"`
	K string  `json:"k,omitempty"`
	V string  `json:"v,omitempty"`
	C float64 `json:"c,omitempty"`
}

// Text is the source text of the value as written into the rule file.
func (t LabelT) Text() string {
	switch t.K {
	case "":
		return t.V
	case "label":
		return "{{ $labels." + t.V + " }}"
	case "gt":
		return fmt.Sprintf("{{ if gt $value %.1f }}hi{{ else }}lo{{ end }}", t.C)
	case "value":
		return "v={{ $value }}"
	}
	panic("harness: rulemodel: unknown label template kind " + t.K)
}

// Expand is the documented meaning of the template for one result element.
func (t LabelT) Expand(l labels.Labels, v float64) string {
	switch t.K {
	case "":
		return t.V
	case "label":
		return l.Get(t.V)
	case "gt":
		if v > t.C {
			return "hi"
		}
		return "lo"
	case "value":
		return "v=" + fmt.Sprint(v)
	}
	panic("harness: rulemodel: unknown label template kind " + t.K)
}

// Alert is one alert instance of the model.
type Alert struct {
	Labels labels.Labels
	Ann    labels.Labels
	Value  float64
	State  AState

	ActiveAt, FiredAt, ResolvedAt, KeepFiringSince, LastSentAt time.Time

	// MayBeGone: the alert sits exactly at the end of the retention period; the statement does not say
	// whether the period is closed, so the observation decides (see Settle).
	MayBeGone bool
	// Restore candidates not yet settled against an observation (nil = nothing pending).
	Cands []Interval
}

// Interval of acceptable activation times [Lo, Hi].
type Interval struct{ Lo, Hi time.Time }

func (iv Interval) Has(t time.Time) bool { return !t.Before(iv.Lo) && !t.After(iv.Hi) }

// AlertRule is the reference state machine of one alerting rule.
type AlertRule struct {
	Name     string
	For, Kff time.Duration
	Labels   []LabelT // group labels overridden by rule labels
	Ann      []LabelT
	Restored bool // the `for` state restoration has run (ALERTS series are written only afterwards)
	Alerts   map[string]*Alert
}

// Identity is what a reload uses to recognise a rule: name and (unexpanded) labels.
func (r *AlertRule) Identity() string {
	var sb strings.Builder
	sb.WriteString(r.Name)
	ls := append([]LabelT(nil), r.Labels...)
	sort.Slice(ls, func(i, j int) bool { return ls[i].N < ls[j].N })
	for _, l := range ls {
		fmt.Fprintf(&sb, "|%s=%s", l.N, l.Text())
	}
	return sb.String()
}

// Keys returns the sorted keys of the tracked alerts.
func (r *AlertRule) Keys() []string {
	ks := make([]string, 0, len(r.Alerts))
	for k := range r.Alerts {
		ks = append(ks, k)
	}
	sort.Strings(ks)
	return ks
}

// AlertLabels builds the identifying label set of the alert for one result element: the element's
// labels without the metric name, overridden by the (expanded) rule labels, plus alertname.
func (r *AlertRule) AlertLabels(l labels.Labels, v float64) labels.Labels {
	b := labels.NewBuilder(l)
	b.Del(labels.MetricName)
	for _, t := range r.Labels {
		b.Set(t.N, t.Expand(l, v))
	}
	b.Set(labels.AlertName, r.Name)
	return b.Labels()
}

func (r *AlertRule) annotations(l labels.Labels, v float64) labels.Labels {
	b := labels.NewBuilder(labels.EmptyLabels())
	for _, t := range r.Ann {
		b.Set(t.N, t.Expand(l, v))
	}
	return b.Labels()
}

// OutSample is one expected sample of the synthetic series.
type OutSample struct {
	L labels.Labels
	V float64
}

// StepResult of one evaluation.
type StepResult struct {
	Err    string      // "" | "dup" (two elements give the same alert label set) | "limit"
	Vector []OutSample // ALERTS and ALERTS_FOR_STATE samples to be stored at the evaluation time
	Events string      // transition letters, for the distinctness key
}

// Step applies one successful query result at evaluation time ts.
//
//	P new pending   F pending->firing   D pending dropped   K kept firing (keep_firing_for)
//	R resolved      X retention over    N resolved alert reappeared   B firing->pending (hold grew / activation moved)
func (r *AlertRule) Step(ts time.Time, res []Point, limit int) StepResult {
	var out StepResult
	type el struct {
		l, ann labels.Labels
		v      float64
	}
	present := map[string]el{}
	for _, p := range res {
		l := r.AlertLabels(p.L, p.V)
		k := Key(l)
		if _, dup := present[k]; dup {
			return StepResult{Err: "dup"} // the evaluation fails as a whole, nothing changes
		}
		present[k] = el{l, r.annotations(p.L, p.V), p.V}
	}
	var ev strings.Builder
	pks := make([]string, 0, len(present))
	for k := range present {
		pks = append(pks, k)
	}
	sort.Strings(pks)
	// Activation: an element without a live alert (none, or a resolved one) starts a new pending period.
	for _, k := range pks {
		e := present[k]
		a := r.Alerts[k]
		if a != nil && a.State != Inactive {
			a.Value, a.Ann = e.v, e.ann
			continue
		}
		if a != nil {
			ev.WriteByte('N')
		} else {
			ev.WriteByte('P')
		}
		r.Alerts[k] = &Alert{Labels: e.l, Ann: e.ann, Value: e.v, State: Pending, ActiveAt: ts}
	}
	nActive := 0
	for _, k := range r.Keys() {
		a := r.Alerts[k]
		a.MayBeGone = false
		if _, ok := present[k]; !ok {
			switch a.State {
			case Pending:
				delete(r.Alerts, k)
				ev.WriteByte('D')
				continue
			case Firing:
				keep := false
				if r.Kff > 0 {
					if a.KeepFiringSince.IsZero() {
						a.KeepFiringSince = ts
					}
					keep = ts.Sub(a.KeepFiringSince) < r.Kff
				}
				if !keep {
					a.State = Inactive
					a.ResolvedAt = ts
					ev.WriteByte('R')
					continue
				}
				ev.WriteByte('K')
			case Inactive:
				switch d := ts.Sub(a.ResolvedAt); {
				case d > ResolvedRetention:
					delete(r.Alerts, k)
					ev.WriteByte('X')
				case d == ResolvedRetention:
					a.MayBeGone = true
				}
				continue
			}
		} else {
			a.KeepFiringSince = time.Time{}
		}
		// The alert is active (or kept firing): it fires once `for` has passed since its activation,
		// and it is (again) pending whenever that is not the case.
		nActive++
		if a.State == Pending && ts.Sub(a.ActiveAt) >= r.For {
			a.State = Firing
			a.FiredAt = ts
			ev.WriteByte('F')
		}
		if a.State == Firing && ts.Sub(a.ActiveAt) < r.For {
			a.State = Pending
			a.FiredAt, a.LastSentAt, a.KeepFiringSince = time.Time{}, time.Time{}, time.Time{}
			ev.WriteByte('B')
		}
	}
	if limit > 0 && nActive > limit {
		r.Alerts = map[string]*Alert{}
		return StepResult{Err: "limit", Events: "L"}
	}
	if r.Restored {
		for _, k := range r.Keys() {
			a := r.Alerts[k]
			if a.State == Inactive {
				continue
			}
			out.Vector = append(out.Vector, r.alertsSample(a), r.forStateSample(a))
		}
	}
	out.Events = ev.String()
	return out
}

func (r *AlertRule) alertsSample(a *Alert) OutSample {
	b := labels.NewBuilder(a.Labels)
	b.Set(labels.MetricName, "ALERTS")
	b.Set("alertstate", a.State.String())
	return OutSample{L: b.Labels(), V: 1}
}

// ForStateLabels is the label set of the ALERTS_FOR_STATE series of an alert.
func ForStateLabels(al labels.Labels) labels.Labels {
	b := labels.NewBuilder(al)
	b.Set(labels.MetricName, "ALERTS_FOR_STATE")
	return b.Labels()
}

func (r *AlertRule) forStateSample(a *Alert) OutSample {
	return OutSample{L: ForStateLabels(a.Labels), V: float64(a.ActiveAt.Unix())}
}

// SendDecision for one alert at a successful evaluation.
type SendDecision int

const (
	NoSend SendDecision = iota
	MustSend
	MaySend // exactly resend-delay after the last send: "minimum time to wait" leaves the instant open
)

// NeedsSending: firing and resolved alerts are sent when they were never sent, were resolved since the
// last send, or the resend delay has passed since the last send.
func (a *Alert) NeedsSending(ts time.Time, resend time.Duration) SendDecision {
	if a.State == Pending {
		return NoSend
	}
	if a.ResolvedAt.After(a.LastSentAt) {
		return MustSend
	}
	switch next := a.LastSentAt.Add(resend); {
	case next.Before(ts):
		return MustSend
	case next.Equal(ts):
		return MaySend
	}
	return NoSend
}

// Restore applies the documented `for`-state restoration at time ts to every tracked alert of the rule.
// last returns the newest ALERTS_FOR_STATE sample of the given series within [mint, maxt] (ms).
// The restoration data has a resolution of one second (the stored value is a Unix time in seconds), and
// the statement does not fix sub-second rounding: every outcome reachable by rounding the sample time
// down by less than a second is accepted. The candidates are stored in Alert.Cands and settled against
// the next observation of the alert.
//
//   - `for` shorter than the grace period: nothing is restored (exactly equal: either way);
//   - no sample within the outage tolerance before ts, or the newest one is a staleness marker: nothing;
//   - the alert had been active for at least `for` when the sample was written: activation = stored time
//     (it fires at the next evaluation in which it is active);
//   - otherwise the activation is the stored time moved forward by the time since the sample (the outage),
//     but so that at least the grace period remains before firing: activation = ts + grace - for.
func (r *AlertRule) Restore(ts time.Time, outageTol, grace time.Duration,
	last func(l labels.Labels, mint, maxt int64) (Sample, bool)) {
	defer func() { r.Restored = true }()
	if r.For < grace {
		return
	}
	tsMs := ts.UnixMilli() // floor for times after 1970
	lim := ts.Add(-outageTol)
	for _, k := range r.Keys() {
		a := r.Alerts[k]
		keep := Interval{a.ActiveAt, a.ActiveAt}
		var cands []Interval
		if r.For == grace {
			cands = append(cands, keep)
		}
		// Window bound: a sample at or after ts-outageTol is inside; one within the same millisecond is open.
		mintLo := lim.UnixMilli()
		s, ok := last(ForStateLabels(a.Labels), mintLo, tsMs)
		var s2 Sample
		ok2 := false
		if lim.Nanosecond()%1e6 != 0 {
			s2, ok2 = last(ForStateLabels(a.Labels), mintLo+1, tsMs)
			if ok != ok2 || (ok && s != s2) {
				// the boundary millisecond decides: both readings are accepted
				cands = append(cands, r.restoreCands(a, ts, grace, s2, ok2)...)
			}
		}
		cands = append(cands, r.restoreCands(a, ts, grace, s, ok)...)
		a.Cands = cands
	}
}

func (r *AlertRule) restoreCands(a *Alert, ts time.Time, grace time.Duration, s Sample, ok bool) []Interval {
	keep := Interval{a.ActiveAt, a.ActiveAt}
	if !ok || IsStale(s.V) {
		return []Interval{keep}
	}
	stored := time.Unix(int64(s.V), 0).UTC()
	downAt := time.UnixMilli(s.T).UTC()
	var out []Interval
	// The time spent pending may be taken from the sample time as it is or at one second resolution (as the stored
	// activation time is): frac is what the second reading loses, which the sample time itself tells.
	lost := time.Duration(((s.T%1000)+1000)%1000) * time.Millisecond
	for _, frac := range []time.Duration{0, lost} {
		spent := downAt.Add(-frac).Sub(stored)
		remaining := r.For - spent
		switch {
		case remaining <= 0:
			out = append(out, Interval{stored, stored})
		case remaining < grace:
			t := ts.Add(grace).Add(-r.For)
			out = append(out, Interval{t, t})
		default:
			lo := stored.Add(ts.Sub(downAt))
			out = append(out, Interval{lo, lo.Add(time.Second)})
		}
	}
	return out
}

// Settle resolves the open points of the model against an observation of the tracked alerts of the
// rule: restore candidates (the observed activation time must lie in one of them and is adopted) and
// alerts exactly at the end of the retention period (may be gone). It returns a description of the
// first mismatch or "".
func (r *AlertRule) Settle(observedActiveAt map[string]time.Time) string {
	for _, k := range r.Keys() {
		a := r.Alerts[k]
		obs, seen := observedActiveAt[k]
		if a.MayBeGone {
			a.MayBeGone = false
			if !seen {
				delete(r.Alerts, k)
				continue
			}
		}
		if a.Cands == nil {
			continue
		}
		cands := a.Cands
		a.Cands = nil
		if !seen {
			continue // reported by the full comparison
		}
		ok := false
		for _, iv := range cands {
			if iv.Has(obs) {
				ok = true
				break
			}
		}
		if !ok {
			var cs []string
			seen := map[string]bool{}
			for _, iv := range cands {
				if k := iv.Lo.String() + iv.Hi.String(); seen[k] {
					continue
				} else {
					seen[k] = true
				}
				if iv.Lo.Equal(iv.Hi) {
					cs = append(cs, iv.Lo.UTC().Format(time.RFC3339Nano))
				} else {
					cs = append(cs, "["+iv.Lo.UTC().Format(time.RFC3339Nano)+" .. "+iv.Hi.UTC().Format(time.RFC3339Nano)+"]")
				}
			}
			return fmt.Sprintf("alert %s: activation time after restore is %s, the documented rule allows %s",
				k, obs.UTC().Format(time.RFC3339Nano), strings.Join(cs, " or "))
		}
		a.ActiveAt = obs
	}
	return ""
}
