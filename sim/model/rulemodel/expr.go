package rulemodel

import (
	"errors"
	"fmt"
	"regexp"
	"sort"
	"strconv"
	"strings"
	"sync"

	"github.com/prometheus/prometheus/model/labels"
)

// Matcher of a selector. T: 0 "=", 1 "!=", 2 "=~" (fully anchored).
type Matcher struct {
	N string `json:"n"`
	V string `json:"v"`
	T int    `json:"t,omitempty"`
}

// Expr is a tiny PromQL subset. Op:
//
//	sel    Name{M...} | {__name__=~"NameRe",M...} | {M...}
//	gt     A > C            (A is a selector; keeps the metric name)
//	mul    A * C            (drops the metric name)
//	add    A + C            (drops the metric name)
//	sum|count|max  <op> by (By) (A)
//	plus   A + B            (A, B aggregations by the same labels: one-to-one)
type Expr struct {
	Op     string    `json:"op"`
	Name   string    `json:"name,omitempty"`
	NameRe string    `json:"namere,omitempty"`
	M      []Matcher `json:"m,omitempty"`
	C      float64   `json:"c,omitempty"`
	By     []string  `json:"by,omitempty"`
	A      *Expr     `json:"a,omitempty"`
	B      *Expr     `json:"b,omitempty"`
}

func fnum(c float64) string { return strconv.FormatFloat(c, 'g', -1, 64) }

// String prints PromQL text.
func (e *Expr) String() string {
	switch e.Op {
	case "sel":
		var ms []string
		if e.NameRe != "" {
			ms = append(ms, fmt.Sprintf("__name__=~%q", e.NameRe))
		}
		for _, m := range e.M {
			op := []string{"=", "!=", "=~"}[m.T]
			ms = append(ms, fmt.Sprintf("%s%s%q", m.N, op, m.V))
		}
		if len(ms) == 0 {
			return e.Name
		}
		return e.Name + "{" + strings.Join(ms, ",") + "}"
	case "gt":
		return "(" + e.A.String() + ") > " + fnum(e.C)
	case "mul":
		return "(" + e.A.String() + ") * " + fnum(e.C)
	case "add":
		return "(" + e.A.String() + ") + " + fnum(e.C)
	case "sum", "count", "max":
		return e.Op + " by (" + strings.Join(e.By, ",") + ") (" + e.A.String() + ")"
	case "plus":
		return "(" + e.A.String() + ") + (" + e.B.String() + ")"
	}
	panic("harness: rulemodel: unknown expr op " + e.Op)
}

// Selectors returns all selector nodes.
func (e *Expr) Selectors() []*Expr {
	if e == nil {
		return nil
	}
	if e.Op == "sel" {
		return []*Expr{e}
	}
	return append(e.A.Selectors(), e.B.Selectors()...)
}

var (
	reMu    sync.Mutex
	reCache = map[string]*regexp.Regexp{}
)

func anchored(re string) *regexp.Regexp {
	reMu.Lock()
	defer reMu.Unlock()
	if r, ok := reCache[re]; ok {
		return r
	}
	r := regexp.MustCompile("^(?s:" + re + ")$")
	reCache[re] = r
	return r
}

// MayMatchName tells whether the selector can select series of the given metric name.
func (e *Expr) MayMatchName(n string) bool {
	if e.Name != "" {
		return e.Name == n
	}
	if e.NameRe != "" {
		return anchored(e.NameRe).MatchString(n)
	}
	return true // no name matcher at all
}

// RefersTo tells whether some selector of the expression can select series named n.
func (e *Expr) RefersTo(n string) bool {
	for _, s := range e.Selectors() {
		if s.MayMatchName(n) {
			return true
		}
	}
	return false
}

// RefersToAlert tells whether some selector of the expression can select the synthetic ALERTS /
// ALERTS_FOR_STATE series of the alerting rule with the given name.
func (e *Expr) RefersToAlert(alertName string) bool {
	for _, s := range e.Selectors() {
		if !s.MayMatchName("ALERTS") && !s.MayMatchName("ALERTS_FOR_STATE") {
			continue
		}
		ok := true
		for _, m := range s.M {
			if m.N != "alertname" {
				continue
			}
			switch m.T {
			case 0:
				ok = ok && m.V == alertName
			case 1:
				ok = ok && m.V != alertName
			case 2:
				ok = ok && anchored(m.V).MatchString(alertName)
			}
		}
		if ok {
			return true
		}
	}
	return false
}

func (e *Expr) matchSel(l labels.Labels) bool {
	if !e.MayMatchName(l.Get(labels.MetricName)) {
		return false
	}
	for _, m := range e.M {
		v := l.Get(m.N)
		switch m.T {
		case 0:
			if v != m.V {
				return false
			}
		case 1:
			if v == m.V {
				return false
			}
		case 2:
			if !anchored(m.V).MatchString(v) {
				return false
			}
		}
	}
	return true
}

// ErrSameLabelset is the evaluation error for a vector holding one label set twice.
var ErrSameLabelset = errors.New("vector cannot contain metrics with the same labelset")

func dropName(l labels.Labels) labels.Labels {
	return labels.NewBuilder(l).Del(labels.MetricName).Labels()
}

func sortPoints(p []Point) {
	sort.Slice(p, func(i, j int) bool { return Key(p[i].L) < Key(p[j].L) })
}

func hasDup(p []Point) bool {
	seen := map[string]bool{}
	for _, x := range p {
		k := Key(x.L)
		if seen[k] {
			return true
		}
		seen[k] = true
	}
	return false
}

// Eval evaluates the expression as an instant query at t (ms) with the given look-back (ms).
func (e *Expr) Eval(st *Store, t, lookback int64) ([]Point, error) {
	switch e.Op {
	case "sel":
		return st.Instant(e.matchSel, t, lookback), nil
	case "gt":
		in, err := e.A.Eval(st, t, lookback)
		if err != nil {
			return nil, err
		}
		var out []Point
		for _, p := range in {
			if p.V > e.C {
				out = append(out, p)
			}
		}
		return out, nil
	case "mul", "add":
		in, err := e.A.Eval(st, t, lookback)
		if err != nil {
			return nil, err
		}
		out := make([]Point, 0, len(in))
		for _, p := range in {
			v := p.V * e.C
			if e.Op == "add" {
				v = p.V + e.C
			}
			out = append(out, Point{L: dropName(p.L), V: v})
		}
		if hasDup(out) {
			return nil, ErrSameLabelset
		}
		sortPoints(out)
		return out, nil
	case "sum", "count", "max":
		in, err := e.A.Eval(st, t, lookback)
		if err != nil {
			return nil, err
		}
		type acc struct {
			l labels.Labels
			v float64
			n int
		}
		groups := map[string]*acc{}
		for _, p := range in {
			b := labels.NewBuilder(labels.EmptyLabels())
			for _, n := range e.By {
				if v := p.L.Get(n); v != "" {
					b.Set(n, v)
				}
			}
			gl := b.Labels()
			k := Key(gl)
			a := groups[k]
			if a == nil {
				a = &acc{l: gl, v: p.V, n: 1}
				groups[k] = a
				continue
			}
			a.n++
			switch e.Op {
			case "sum":
				a.v += p.V
			case "max":
				if p.V > a.v {
					a.v = p.V
				}
			}
		}
		var out []Point
		for _, a := range groups {
			v := a.v
			if e.Op == "count" {
				v = float64(a.n)
			}
			out = append(out, Point{L: a.l, V: v})
		}
		sortPoints(out)
		return out, nil
	case "plus":
		a, err := e.A.Eval(st, t, lookback)
		if err != nil {
			return nil, err
		}
		b, err := e.B.Eval(st, t, lookback)
		if err != nil {
			return nil, err
		}
		bm := map[string]float64{}
		for _, p := range b {
			bm[Key(dropName(p.L))] = p.V
		}
		var out []Point
		for _, p := range a {
			l := dropName(p.L)
			if v, ok := bm[Key(l)]; ok {
				out = append(out, Point{L: l, V: p.V + v})
			}
		}
		sortPoints(out)
		return out, nil
	}
	panic("harness: rulemodel: unknown expr op " + e.Op)
}
