// Package rulemodel is the reference model of engine rulesim (properties C44, C45):
//
//   - Store: the expected content of the sample storage (series -> time ordered samples) with the
//     in-order admission rule of a storage without an out-of-order window,
//   - Expr: a tiny PromQL subset (selectors, comparison with a constant, arithmetic with a constant,
//     aggregation by labels, one-to-one addition of two aggregations) that can be printed as PromQL text
//     and evaluated against a Store with the documented instant-selector semantics (newest sample in the
//     left-open look-back window, staleness markers end a series),
//   - AlertRule: the alert state machine of C44 written from the property statement and
//     docs/configuration/alerting_rules.md, plus the documented `for`-state restoration rule,
//   - RuleOut: the output/staleness bookkeeping of C45 ("previous successful evaluation").
//
// Nothing in this package looks at the implementation under test.
package rulemodel

import (
	"math"
	"sort"

	"github.com/prometheus/prometheus/model/labels"
	"github.com/prometheus/prometheus/model/value"
)

// StaleNaN is the staleness marker.
var StaleNaN = math.Float64frombits(value.StaleNaN)

// IsStale reports whether v is the staleness marker (bitwise).
func IsStale(v float64) bool { return math.Float64bits(v) == value.StaleNaN }

// SameBits compares two float values bitwise.
func SameBits(a, b float64) bool { return math.Float64bits(a) == math.Float64bits(b) }

// Sample is one stored sample (T in milliseconds).
type Sample struct {
	T int64
	V float64
}

// Series of the model store.
type Series struct {
	L labels.Labels
	S []Sample // strictly increasing T
}

// Store is the expected content of the storage.
type Store struct {
	m map[string]*Series
}

func NewStore() *Store { return &Store{m: map[string]*Series{}} }

// Key is the canonical identity of a label set.
func Key(l labels.Labels) string { return l.String() }

// Append applies the in-order admission rule: a sample is stored if it is newer than the newest
// sample of its series; a sample with the timestamp of the newest sample and the same value bits is
// a no-op that succeeds; everything else is refused.
func (st *Store) Append(l labels.Labels, t int64, v float64) bool {
	k := Key(l)
	s := st.m[k]
	if s == nil {
		s = &Series{L: l}
		st.m[k] = s
	}
	if n := len(s.S); n > 0 {
		last := s.S[n-1]
		if t < last.T {
			return false
		}
		if t == last.T {
			return SameBits(last.V, v)
		}
	}
	s.S = append(s.S, Sample{t, v})
	return true
}

// WouldAccept tells whether Append would store (or silently accept) the sample.
func (st *Store) WouldAccept(l labels.Labels, t int64, v float64) bool {
	s := st.m[Key(l)]
	if s == nil || len(s.S) == 0 {
		return true
	}
	last := s.S[len(s.S)-1]
	if t < last.T {
		return false
	}
	if t == last.T {
		return SameBits(last.V, v)
	}
	return true
}

// At returns the sample of series l at exactly t.
func (st *Store) At(l labels.Labels, t int64) (float64, bool) {
	s := st.m[Key(l)]
	if s == nil {
		return 0, false
	}
	i := sort.Search(len(s.S), func(i int) bool { return s.S[i].T >= t })
	if i < len(s.S) && s.S[i].T == t {
		return s.S[i].V, true
	}
	return 0, false
}

// LastIn returns the newest sample of series l with mint <= T <= maxt.
func (st *Store) LastIn(l labels.Labels, mint, maxt int64) (Sample, bool) {
	s := st.m[Key(l)]
	if s == nil {
		return Sample{}, false
	}
	i := sort.Search(len(s.S), func(i int) bool { return s.S[i].T > maxt })
	if i == 0 || s.S[i-1].T < mint {
		return Sample{}, false
	}
	return s.S[i-1], true
}

// Keys returns the sorted series keys.
func (st *Store) Keys() []string {
	ks := make([]string, 0, len(st.m))
	for k := range st.m {
		ks = append(ks, k)
	}
	sort.Strings(ks)
	return ks
}

// Get returns a series by key.
func (st *Store) Get(k string) *Series { return st.m[k] }

// NumSamples counts all samples.
func (st *Store) NumSamples() int {
	n := 0
	for _, s := range st.m {
		n += len(s.S)
	}
	return n
}

// Point is an instant-vector element.
type Point struct {
	L labels.Labels
	V float64
}

// Instant evaluates an instant vector selector at t: for every matching series the newest sample
// with t-lookback < T <= t, unless that sample is a staleness marker. The result is sorted by key.
func (st *Store) Instant(match func(labels.Labels) bool, t, lookback int64) []Point {
	var out []Point
	for _, k := range st.Keys() {
		s := st.m[k]
		if !match(s.L) {
			continue
		}
		i := sort.Search(len(s.S), func(i int) bool { return s.S[i].T > t })
		if i == 0 {
			continue
		}
		p := s.S[i-1]
		if p.T <= t-lookback || IsStale(p.V) {
			continue
		}
		out = append(out, Point{L: s.L, V: p.V})
	}
	return out
}
