// Package agentmodel is the reference model of the agent-mode (WAL-only) storage used by engine
// agentsim for C48 and the agent half of C15.
//
// It is written from the property statements and from the documentation of agent.Options and
// storage.Appender, not from the implementation:
//
//   - A sample is rejected iff it is not newer than the series' last written (committed) sample minus
//     the out-of-order window. "Last written" is evaluated when Append is called.
//   - Everything accepted by an appender that was committed is in the log, after a series record for
//     its reference; nothing of a rolled-back appender and no rejected sample is in the log.
//   - A truncation at time M may drop logged data older than M and may forget series whose last written
//     sample is older than M (series garbage collection, named in the property's quantifier). Nothing
//     else is ever dropped: data at or after every truncation time since it was written stays, across
//     checkpoints and restarts.
//   - A restart (replay of the log) restores the series and their last written timestamps.
//
// Where the statement leaves a choice (a series that was eligible for garbage collection may or may
// not be remembered, e.g. because its records are still in the log at the next replay) the model is
// three-valued: MustAccept / MustReject / MayEither.
package agentmodel

import "sort"

type Kind int

const (
	KFloat Kind = iota
	KHist
	KFHist
	KExemplar
)

func (k Kind) String() string { return [...]string{"float", "hist", "fhist", "exemplar"}[k] }

type State int

const (
	Pending    State = iota // accepted by an appender that is still open
	Committed               // accepted and the appender was committed
	RolledBack              // accepted, appender rolled back (or lost with the process): must not be in the log
	Rejected                // refused by Append: must not be in the log
)

func (s State) String() string {
	return [...]string{"pending", "committed", "rolled-back", "rejected"}[s]
}

// Item is one datum offered to an appender.
type Item struct {
	ID     int
	Series int // label set index
	Inc    int // incarnation of the series it was appended to
	Kind   Kind
	T      int64
	Key    string // canonical value (and start timestamp) encoding, see the engine's valueKey functions
	Ref    uint64 // series reference the appender returned
	Slot   int
	State  State
	Seq    int // commit sequence number (0 while not committed)
	Epoch  int // process lifetime in which it was appended

	Droppable bool   // a truncation after its commit had a truncation time above T: may be gone
	InFlight  bool   // its commit was interrupted by a process kill: may or may not be there
	Optional  bool   // documented as best effort (start-timestamp zero sample, repeated exemplar): may be absent
	Risk      string // tag of a listed known finding whose input pattern this item went through ("" = none)
}

// Series is the model state of one label set.
type Series struct {
	Labels string
	Inc    int // current incarnation (ends when a truncation time passes its last written sample)

	HasCur  bool // current incarnation has a written sample
	LastCur int64
	HasAll  bool // any incarnation ever had a written sample
	LastAll int64

	InMem    bool   // the series exists in this process (created by an append, not yet collected)
	Ref      uint64 // its reference in this process lifetime, once observed
	RefKnown bool
	LastEx   string // key of the last exemplar accepted at append time in this process lifetime
}

// Model of one agent database.
type Model struct {
	Window int64 // out-of-order window in ms
	Series []*Series
	Items  []*Item

	Seq         int
	Epoch       int
	Truncations int
	HasMint     bool
	LastMint    int64 // most recent truncation time
	MaxMint     int64 // highest truncation time so far
}

func New(labels []string, window int64) *Model {
	m := &Model{Window: window}
	for _, l := range labels {
		m.Series = append(m.Series, &Series{Labels: l})
	}
	return m
}

type Verdict int

const (
	MustAccept Verdict = iota
	MustReject
	MayEither
)

func (v Verdict) String() string { return [...]string{"must-accept", "must-reject", "may-either"}[v] }

// Admit is the admission rule for a sample (float or histogram) at timestamp t for label set s.
func (m *Model) Admit(s int, t int64) Verdict {
	sr := m.Series[s]
	if sr.HasCur && t <= sr.LastCur-m.Window {
		return MustReject
	}
	if !sr.HasAll || t > sr.LastAll-m.Window {
		return MustAccept
	}
	// Older than (last - window) of an earlier incarnation whose end (garbage collection) the statement permits
	// but does not demand: both outcomes are consistent with it.
	return MayEither
}

// Add records an offered datum. accepted is what the appender said.
func (m *Model) Add(slot, series int, kind Kind, t int64, key string, ref uint64, accepted bool) *Item {
	it := &Item{ID: len(m.Items), Series: series, Inc: m.Series[series].Inc, Kind: kind, T: t, Key: key, Ref: ref, Slot: slot, State: Pending, Epoch: m.Epoch}
	if !accepted {
		it.State = Rejected
	} else {
		m.Series[series].InMem = true
	}
	m.Items = append(m.Items, it)
	return it
}

// PendingOf returns the pending items of an appender slot in append order.
func (m *Model) PendingOf(slot int) []*Item {
	var out []*Item
	for _, it := range m.Items {
		if it.State == Pending && it.Slot == slot {
			out = append(out, it)
		}
	}
	return out
}

func (m *Model) written(it *Item) {
	if it.Kind == KExemplar {
		return // exemplars carry their own timestamps and do not move the series' last written sample
	}
	sr := m.Series[it.Series]
	if !sr.HasAll || it.T > sr.LastAll {
		sr.HasAll, sr.LastAll = true, it.T
	}
	if it.Inc == sr.Inc && (!sr.HasCur || it.T > sr.LastCur) {
		sr.HasCur, sr.LastCur = true, it.T
	}
}

// Commit marks the pending items of slot committed.
func (m *Model) Commit(slot int) []*Item {
	its := m.PendingOf(slot)
	if len(its) > 0 {
		m.Seq++
	}
	for _, it := range its {
		it.State, it.Seq = Committed, m.Seq
		m.written(it)
	}
	return its
}

// CommitItems marks exactly the given (pending) items committed: what a crash recovery showed of an interrupted commit.
func (m *Model) CommitItems(its []*Item) {
	if len(its) > 0 {
		m.Seq++
	}
	for _, it := range its {
		it.State, it.Seq, it.InFlight = Committed, m.Seq, false
		m.written(it)
	}
}

// Rollback drops the pending items of slot.
func (m *Model) Rollback(slot int) []*Item {
	its := m.PendingOf(slot)
	for _, it := range its {
		it.State = RolledBack
	}
	return its
}

// WouldCollect reports whether a truncation at mint ends the current incarnation of series s.
func (m *Model) WouldCollect(s int, mint int64) bool {
	sr := m.Series[s]
	if sr.HasCur {
		return sr.LastCur < mint
	}
	return sr.InMem
}

// Truncate applies a truncation at time mint: older written data becomes droppable, series whose last written
// sample is older end their incarnation. It returns the indexes of the series that were collected.
func (m *Model) Truncate(mint int64) []int {
	m.Truncations++
	if !m.HasMint || mint > m.MaxMint {
		m.MaxMint = mint
	}
	m.HasMint, m.LastMint = true, mint
	for _, it := range m.Items {
		if it.State == Committed && it.T < mint {
			it.Droppable = true
		}
	}
	var gc []int
	for i, sr := range m.Series {
		if m.WouldCollect(i, mint) {
			sr.Inc++
			sr.HasCur, sr.InMem, sr.RefKnown = false, false, false
			gc = append(gc, i)
		}
	}
	return gc
}

// Restart is a new process lifetime on the same log: open appenders are gone, references and the
// exemplar de-duplication memory are forgotten, written series are restored by replay.
func (m *Model) Restart() {
	m.Epoch++
	for _, it := range m.Items {
		if it.State == Pending {
			it.State = RolledBack
		}
	}
	for _, sr := range m.Series {
		sr.RefKnown, sr.LastEx = false, ""
		sr.InMem = sr.HasCur
	}
}

// Expect says how often the item must / may be found in the log.
func (it *Item) Expect() (must, may int) {
	if it.State != Committed {
		if it.State == Pending && it.InFlight {
			return 0, 1
		}
		return 0, 0
	}
	if it.Droppable || it.InFlight || it.Optional {
		return 0, 1
	}
	return 1, 0
}

// Stats for samples / keys.
func (m *Model) Counts() (committed, mustKeep, droppable int) {
	for _, it := range m.Items {
		if it.State == Committed {
			committed++
			if mu, _ := it.Expect(); mu > 0 {
				mustKeep++
			} else {
				droppable++
			}
		}
	}
	return
}

// AliveSeries returns the indexes of series with a written sample in their current incarnation.
func (m *Model) AliveSeries() []int {
	var out []int
	for i, sr := range m.Series {
		if sr.HasCur {
			out = append(out, i)
		}
	}
	sort.Ints(out)
	return out
}

// Recompute rebuilds the last-written timestamps from the committed items (after a crash recovery decided which
// items of an interrupted commit were written).
func (m *Model) Recompute() {
	for _, sr := range m.Series {
		sr.HasCur, sr.HasAll, sr.LastCur, sr.LastAll = false, false, 0, 0
	}
	for _, it := range m.Items {
		if it.State == Committed {
			m.written(it)
		}
	}
}
