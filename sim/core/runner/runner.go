// Package runner is the common driver of every simulation engine: it turns
// (property, tier, base seed, run index) into a seed, asks the engine for a
// plan, executes the plan inside a testing/synctest bubble, collects results,
// minimises failing plans and writes / replays replay files.
//
// One integer decides everything: run i of property P uses
// prng.Derive(base, hash(engine), hash(P), i); the engine derives every other
// choice from that value. Nothing here reads a real clock except to stop a
// worker at its wall-clock cap (which only truncates the run list).
package runner

import (
	"encoding/json"
	"flag"
	"fmt"
	"os"
	"runtime/debug"
	"sort"
	"strings"
	"testing"
	"testing/synctest"
	"time"

	"verif/sim/core/prng"
)

// Violation is one oracle failure.
type Violation struct {
	Property  string `json:"property"`
	Oracle    string `json:"oracle"`    // stable id of the oracle that fired
	Signature string `json:"signature"` // structural signature used to match known findings
	Detail    string `json:"detail"`
}

func (v Violation) Class() string { return v.Property + "/" + v.Oracle + "/" + v.Signature }

// Result of one executed plan.
type Result struct {
	Violations []Violation
	Counters   map[string]int64 // faults fired, io sites, probes ... (summed over runs)
	NonTrivial bool             // by the property's stated rule
	Key        string           // distinctness key (by the property's stated rule)
	StateKeys  []string         // extra distinct-state keys (e.g. crash image layouts)
	Evals      int64            // oracle evaluations in this run (images judged, queries checked)
	SimTimeMs  int64
	Sample     any    // small JSON-able description of the case
	Trace      string // canonical event trace (only kept when -sim.trace is set)
	// LeakedGoroutinesExpected: the system under test left goroutines behind by design of the scenario (an Open that
	// failed after starting its log writers has no handle to close them); the end-of-bubble deadlock report of
	// synctest is then not a harness failure.
	LeakedGoroutinesExpected bool
}

func (r *Result) Count(name string, n int64) {
	if r.Counters == nil {
		r.Counters = map[string]int64{}
	}
	r.Counters[name] += n
}

func (r *Result) Violate(prop, oracle, sig, format string, args ...any) {
	r.Violations = append(r.Violations, Violation{Property: prop, Oracle: oracle, Signature: sig, Detail: fmt.Sprintf(format, args...)})
}

// Engine is implemented by each simulation engine.
type Engine interface {
	Name() string
	// Runs returns the fixed number of runs of a tier (verdicts must not depend on wall time).
	Runs(prop, tier string) int
	// Generate derives a plan from the seed. Must be a pure function of its arguments.
	Generate(prop, tier string, seed uint64) any
	// DecodePlan parses a plan serialised by json.Marshal(Generate(...)).
	DecodePlan(b []byte) (any, error)
	// Execute runs the plan (inside a synctest bubble) and judges it. Pure function of plan.
	Execute(t *testing.T, prop string, plan any) *Result
	// Shrink returns candidate simplifications of the plan, most aggressive first.
	Shrink(plan any) []any
}

// ReplayFile is what a VIOLATION line points to.
type ReplayFile struct {
	Engine    string          `json:"engine"`
	Property  string          `json:"property"`
	Tier      string          `json:"tier"`
	BaseSeed  uint64          `json:"base_seed"`
	Run       int             `json:"run"`
	Seed      uint64          `json:"seed"`
	Violation Violation       `json:"violation"`
	Minimised bool            `json:"minimised"`
	Shrinks   int             `json:"shrink_candidates_tried"`
	Plan      json.RawMessage `json:"plan"`
	OrigPlan  json.RawMessage `json:"original_plan,omitempty"`
}

// WorkerOut is what one worker process writes.
type WorkerOut struct {
	Engine     string            `json:"engine"`
	Property   string            `json:"property"`
	Tier       string            `json:"tier"`
	BaseSeed   uint64            `json:"base_seed"`
	From       int               `json:"from"`
	To         int               `json:"to"`
	Runs       int               `json:"runs"`
	Truncated  bool              `json:"truncated"`
	Evals      int64             `json:"evals"`
	NonTrivial int               `json:"nontrivial_runs"`
	Keys       []string          `json:"keys"`       // distinct non-trivial keys (hashed)
	StateKeys  []string          `json:"state_keys"` // distinct state keys (hashed)
	Counters   map[string]int64  `json:"counters"`
	SimTimeMs  int64             `json:"sim_time_ms"`
	Samples    []any             `json:"samples"`
	Violations []FoundViolation  `json:"violations"`
	WallS      float64           `json:"wall_s"`
	Traces     map[string]string `json:"traces,omitempty"`
}

type FoundViolation struct {
	Run  int    `json:"run"`
	Seed uint64 `json:"seed"`
	Violation
	Replay string `json:"replay,omitempty"`
}

var (
	fProp      = flag.String("sim.prop", "", "property id")
	fTier      = flag.String("sim.tier", "quick", "quick|thorough")
	fSeed      = flag.Uint64("sim.seed", 1, "base seed (VERIF_SEED)")
	fFrom      = flag.Int("sim.from", 0, "first run index")
	fTo        = flag.Int("sim.to", -1, "one past last run index (-1: engine default for tier)")
	fOut       = flag.String("sim.out", "", "worker output json")
	fReplay    = flag.String("sim.replay", "", "replay file to re-execute")
	fReplayDir = flag.String("sim.replaydir", "", "directory for replay files of found violations")
	fMaxWall   = flag.Float64("sim.maxwall", 0, "stop starting new runs after this many seconds (0 = no cap)")
	fTrace     = flag.Bool("sim.trace", false, "record canonical traces per run (determinism self-test)")
	fShrinkMax = flag.Int("sim.shrinkmax", 400, "max shrink candidates per violation")
	fShrinkKF  = flag.Int("sim.shrinkknown", 0, "max shrink candidates for violations attributed to a listed known finding (their committed replay plans are what the check uses)")
	fMaxViol   = flag.Int("sim.maxviol", 3, "stop after this many violating runs")
	fRuns      = flag.Bool("sim.printruns", false, "print the number of runs for prop/tier and exit")
	fVerbose   = flag.Bool("sim.v", false, "verbose")
)

func hashS(s string) uint64 { return prng.DeriveS(0x51ed, s) }

// RunSeed returns the seed of run i.
func RunSeed(base uint64, engine, prop string, i int) uint64 {
	return prng.Derive(base, hashS(engine), hashS(prop), uint64(i))
}

// inBubble executes f inside a synctest bubble and converts panics / deadlocks into a violation-free error string.
func inBubble(t *testing.T, f func(t *testing.T) *Result) (res *Result, harnessErr string) {
	defer func() {
		if r := recover(); r != nil {
			// A panic of the system under test that the engine recovered and reported (oracle "panic") can leave
			// goroutines of the system blocked for good; the bubble then ends with synctest's deadlock panic. The
			// reported violation is the result of the run, not a harness failure.
			if res != nil && strings.Contains(fmt.Sprint(r), "main bubble goroutine has exited but blocked goroutines remain") {
				if res.LeakedGoroutinesExpected {
					return
				}
				for _, v := range res.Violations {
					if v.Oracle == "panic" {
						return
					}
				}
			}
			harnessErr = fmt.Sprintf("bubble panic: %v\n%s", r, debug.Stack())
		}
	}()
	synctest.Test(t, func(t *testing.T) {
		res = f(t)
	})
	return res, ""
}

// ExecOnce executes one plan in a fresh bubble.
func ExecOnce(t *testing.T, e Engine, prop string, plan any) (*Result, string) {
	return inBubble(t, func(t *testing.T) *Result { return e.Execute(t, prop, plan) })
}

func sameClass(res *Result, class string) *Violation {
	if res == nil {
		return nil
	}
	for i := range res.Violations {
		if res.Violations[i].Class() == class {
			return &res.Violations[i]
		}
	}
	return nil
}

// Minimise greedily shrinks plan while the same violation class persists.
func Minimise(t *testing.T, e Engine, prop string, plan any, class string, budget int) (any, Violation, int) {
	tried := 0
	var last Violation
	res, _ := ExecOnce(t, e, prop, plan)
	if v := sameClass(res, class); v != nil {
		last = *v
	}
	for progress := true; progress && tried < budget; {
		progress = false
		for _, cand := range e.Shrink(plan) {
			if tried >= budget {
				break
			}
			tried++
			res, herr := ExecOnce(t, e, prop, cand)
			if herr != "" {
				continue
			}
			if v := sameClass(res, class); v != nil {
				plan, last, progress = cand, *v, true
				break
			}
		}
	}
	return plan, last, tried
}

func mustJSON(v any) json.RawMessage {
	b, err := json.Marshal(v)
	if err != nil {
		panic(err)
	}
	return b
}

// Main is called from each engine's TestSim.
func Main(t *testing.T, e Engine) {
	if *fRuns {
		fmt.Printf("RUNS %d\n", e.Runs(*fProp, *fTier))
		return
	}
	if *fReplay != "" {
		replay(t, e)
		return
	}
	if *fProp == "" {
		t.Skip("no -sim.prop given")
	}
	start := time.Now()
	to := *fTo
	if to < 0 {
		to = e.Runs(*fProp, *fTier)
	}
	out := &WorkerOut{Engine: e.Name(), Property: *fProp, Tier: *fTier, BaseSeed: *fSeed, From: *fFrom, To: to, Counters: map[string]int64{}}
	keys := map[string]struct{}{}
	skeys := map[string]struct{}{}
	if *fTrace {
		out.Traces = map[string]string{}
	}
	violRuns := 0
	for i := *fFrom; i < to; i++ {
		if *fMaxWall > 0 && time.Since(start).Seconds() > *fMaxWall {
			out.Truncated = true
			break
		}
		seed := RunSeed(*fSeed, e.Name(), *fProp, i)
		plan := e.Generate(*fProp, *fTier, seed)
		// Round-trip through JSON so that what is executed is exactly what a replay file would hold.
		pj := mustJSON(plan)
		plan, err := e.DecodePlan(pj)
		if err != nil {
			fmt.Printf("HARNESS-ERROR run=%d seed=%d decode: %v\n", i, seed, err)
			os.Exit(2)
		}
		// Should the system under test bring the whole process down (a panic in one of its own goroutines cannot be
		// recovered by the harness), the driver finds the plan that was executing here.
		if *fOut != "" {
			inflight := *fOut + ".inflight.json"
			rf := ReplayFile{Engine: e.Name(), Property: *fProp, Tier: *fTier, BaseSeed: *fSeed, Run: i, Seed: seed, Plan: pj,
				Violation: Violation{Property: *fProp, Oracle: "process-crash", Signature: "process-crash", Detail: "the worker process died while executing this plan"}}
			b, _ := json.MarshalIndent(rf, "", " ")
			_ = os.WriteFile(inflight, b, 0o644)
		}
		res, herr := ExecOnce(t, e, *fProp, plan)
		if herr != "" {
			fmt.Printf("HARNESS-ERROR run=%d seed=%d %s\n", i, seed, herr)
			os.Exit(2)
		}
		out.Runs++
		out.Evals += res.Evals
		out.SimTimeMs += res.SimTimeMs
		for k, v := range res.Counters {
			out.Counters[k] += v
		}
		if res.NonTrivial {
			out.NonTrivial++
			keys[fmt.Sprintf("%016x", hashS(res.Key))] = struct{}{}
		}
		for _, k := range res.StateKeys {
			skeys[fmt.Sprintf("%016x", hashS(k))] = struct{}{}
		}
		if len(out.Samples) < 3 && res.Sample != nil && (res.NonTrivial || i == to-1) {
			out.Samples = append(out.Samples, res.Sample)
		}
		if *fTrace {
			out.Traces[fmt.Sprint(i)] = fmt.Sprintf("%016x", hashS(res.Trace))
		}
		if *fVerbose {
			fmt.Printf("run %d seed %d nontrivial=%v viol=%d evals=%d\n", i, seed, res.NonTrivial, len(res.Violations), res.Evals)
		}
		if len(res.Violations) > 0 {
			onlyKnown := true
			for _, v := range res.Violations {
				if !strings.HasPrefix(v.Signature, "known:") {
					onlyKnown = false
				}
			}
			if !onlyKnown {
				violRuns++ // listed known findings do not count towards the early stop
			}
			// one replay file per distinct class in this run
			seen := map[string]bool{}
			for _, v := range res.Violations {
				if seen[v.Class()] {
					continue
				}
				seen[v.Class()] = true
				fv := FoundViolation{Run: i, Seed: seed, Violation: v}
				if *fReplayDir != "" {
					budget := *fShrinkMax
					if strings.HasPrefix(v.Signature, "known:") {
						budget = *fShrinkKF
					}
					minPlan, minV, tried := Minimise(t, e, *fProp, plan, v.Class(), budget)
					if minV.Property == "" {
						// not reproducible on re-execution: harness nondeterminism, never a violation
						fmt.Printf("HARNESS-ERROR run=%d seed=%d violation %s did not reproduce on re-execution: %s\n", i, seed, v.Class(), v.Detail)
						os.Exit(2)
					}
					rf := ReplayFile{Engine: e.Name(), Property: *fProp, Tier: *fTier, BaseSeed: *fSeed, Run: i, Seed: seed,
						Violation: minV, Minimised: true, Shrinks: tried, Plan: mustJSON(minPlan), OrigPlan: pj}
					fv.Violation = minV
					path := fmt.Sprintf("%s/%s-%s-%d-%s.json", *fReplayDir, *fProp, e.Name(), seed, sanitize(v.Oracle))
					b, _ := json.MarshalIndent(rf, "", " ")
					if err := os.WriteFile(path, b, 0o644); err != nil {
						fmt.Printf("HARNESS-ERROR write replay: %v\n", err)
						os.Exit(2)
					}
					fv.Replay = path
				}
				out.Violations = append(out.Violations, fv)
			}
			if violRuns >= *fMaxViol {
				out.Truncated = true
				break
			}
		}
	}
	if *fOut != "" {
		os.Remove(*fOut + ".inflight.json") // (kept through the minimisation of the last run's violations)
	}
	for k := range keys {
		out.Keys = append(out.Keys, k)
	}
	sort.Strings(out.Keys)
	for k := range skeys {
		out.StateKeys = append(out.StateKeys, k)
	}
	sort.Strings(out.StateKeys)
	out.WallS = time.Since(start).Seconds()
	if *fOut != "" {
		b, _ := json.Marshal(out)
		if err := os.WriteFile(*fOut, b, 0o644); err != nil {
			fmt.Printf("HARNESS-ERROR write out: %v\n", err)
			os.Exit(2)
		}
	}
	fmt.Printf("WORKER-DONE runs=%d violations=%d evals=%d nontrivial=%d wall=%.1fs\n", out.Runs, len(out.Violations), out.Evals, out.NonTrivial, out.WallS)
}

func sanitize(s string) string {
	return strings.Map(func(r rune) rune {
		if (r >= 'a' && r <= 'z') || (r >= 'A' && r <= 'Z') || (r >= '0' && r <= '9') || r == '-' || r == '_' {
			return r
		}
		return '_'
	}, s)
}

func replay(t *testing.T, e Engine) {
	b, err := os.ReadFile(*fReplay)
	if err != nil {
		fmt.Printf("HARNESS-ERROR read replay: %v\n", err)
		os.Exit(2)
	}
	var rf ReplayFile
	if err := json.Unmarshal(b, &rf); err != nil {
		fmt.Printf("HARNESS-ERROR parse replay: %v\n", err)
		os.Exit(2)
	}
	plan, err := e.DecodePlan(rf.Plan)
	if err != nil {
		fmt.Printf("HARNESS-ERROR decode plan: %v\n", err)
		os.Exit(2)
	}
	res, herr := ExecOnce(t, e, rf.Property, plan)
	if herr != "" {
		fmt.Printf("HARNESS-ERROR %s\n", herr)
		os.Exit(2)
	}
	if v := sameClass(res, rf.Violation.Class()); v != nil {
		fmt.Printf("REPLAY-REPRODUCED property=%s oracle=%s signature=%s\n%s\n", v.Property, v.Oracle, v.Signature, v.Detail)
		fmt.Printf("VIOLATION property=%s replay=%s\n", v.Property, *fReplay)
		os.Exit(1)
	}
	for _, v := range res.Violations {
		fmt.Printf("REPLAY-OTHER property=%s oracle=%s %s\n", v.Property, v.Oracle, v.Detail)
	}
	fmt.Printf("REPLAY-DIVERGED expected %s\n", rf.Violation.Class())
	os.Exit(3)
}
