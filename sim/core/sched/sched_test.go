package sched

import (
	"fmt"
	"strings"
	"sync"
	"testing"
	"testing/synctest"
	"time"
)

func runOnce(t *testing.T, seed uint64, pol Policy, replay []int) (string, []int) {
	var out string
	var choices []int
	synctest.Test(t, func(t *testing.T) {
		s := New(seed, pol)
		s.Replay = replay
		var mu sync.Mutex
		var log []string
		for i := 0; i < 3; i++ {
			i := i
			s.Go(fmt.Sprintf("t%d", i), func() {
				for j := 0; j < 4; j++ {
					mu.Lock()
					log = append(log, fmt.Sprintf("%d.%d@%v", i, j, time.Since(time.Date(2000, 1, 1, 0, 0, 0, 0, time.UTC))))
					mu.Unlock()
					if j == 1 {
						time.Sleep(time.Duration(i+1) * time.Second) // timer wake-up ...
					}
					s.Yield(fmt.Sprintf("t%d", i)) // ... followed by a yield
				}
			})
		}
		// a lock user
		s.Go("locker", func() {
			s.Acquire("L", true)
			s.Yield("locker:holding")
			s.Release("L", true)
		})
		s.Go("locker2", func() {
			s.Acquire("L", true)
			mu.Lock()
			log = append(log, "locker2")
			mu.Unlock()
			s.Release("L", true)
		})
		if err := s.Run(nil); err != nil {
			t.Fatal(err)
		}
		s.Stop()
		out = strings.Join(log, " ")
		choices = s.Choices
	})
	return out, choices
}

func TestDeterminism(t *testing.T) {
	for _, pol := range []Policy{{Kind: "uniform"}, {Kind: "sticky", Stick: 0.8}, {Kind: "pct", PCTDepth: 2}, {Kind: "starve", Starve: "t1", StarveSteps: 8}} {
		a, ca := runOnce(t, 7, pol, nil)
		distinct := map[string]bool{a: true}
		for i := 0; i < 30; i++ {
			b, _ := runOnce(t, 7, pol, nil)
			if a != b {
				t.Fatalf("%v: same seed, different run:\n%s\n%s", pol, a, b)
			}
		}
		for sd := uint64(8); sd < 40; sd++ {
			c, _ := runOnce(t, sd, pol, nil)
			distinct[c] = true
		}
		if len(distinct) < 3 {
			t.Fatalf("%v: only %d distinct interleavings over 33 seeds", pol, len(distinct))
		}
		r, _ := runOnce(t, 999, pol, ca)
		if r != a {
			t.Fatalf("%v: replay of recorded choices diverged:\n%s\n%s", pol, a, r)
		}
	}
}
