// Package sched is the seeded scheduler of the simulator. Inside a testing/synctest bubble it
// releases exactly one parked task at a time and waits for quiescence (synctest.Wait) before
// choosing again, so an interleaving is a list of integers that can be stored, replayed and shrunk.
//
// Vocabulary: a task is a goroutine the scheduler knows - harness tasks started with Go and
// goroutines of the system under test that reached a simhook.Yield / simhook.Acquire point. A task is
// parked while it waits on its private channel and released when the scheduler closes that channel.
//
// Rules for engines:
//   - everything (system under test, scheduler, tasks) lives in one bubble;
//   - a task never parks while holding a real mutex another task may take (sync.Mutex is not durably
//     blocking: synctest.Wait would never return); locks held across blocking operations are mirrored with
//     Acquire/Release;
//   - every goroutine that is woken by another goroutine or by a timer calls Yield right after the wake-up.
package sched

import (
	"fmt"
	"sort"
	"strings"
	"sync"
	"testing/synctest"
	"time"

	"verif/sim/core/prng"
)

// Policy of choosing among runnable tasks.
type Policy struct {
	Kind        string  // "uniform" | "sticky" | "starve" | "pct"
	Stick       float64 // sticky: probability to continue the task released last
	Starve      string  // starve: id prefix that is not chosen for StarveSteps steps (a stalled node), while others are runnable
	StarveSteps int
	PCTDepth    int // pct: number of priority change points
}

type entry struct {
	id    string
	seq   uint64
	ch    chan struct{}
	guard func() bool // nil = always runnable; evaluated with s.mu held
	gid   int
}

type lockState struct {
	writer  bool
	readers int
}

// Sched is one run's scheduler.
type Sched struct {
	mu      sync.Mutex
	rng     *prng.R
	pol     Policy
	parked  []*entry
	seq     uint64
	steps   int
	wake    chan struct{}
	locks   map[string]*lockState
	lastID  string
	tasks   int // harness tasks still running
	stopped bool

	// Replay: if non-nil, choices are taken from it (exhausted / out of range => 0).
	Replay  []int
	Choices []int // recorded choices (index into the sorted runnable list)

	Trace     []string // (step, id) list, kept when KeepTrace
	KeepTrace bool
	traceHash uint64

	MaxSteps int           // hard cap on scheduling steps (0 = 100000)
	Idle     time.Duration // simulated time the scheduler waits with nothing runnable before it reports a stall (0 = 1h)

	pctPrio   map[string]int
	pctChange map[int]bool
}

// New creates a scheduler. Must be used inside a synctest bubble.
func New(seed uint64, pol Policy) *Sched {
	s := &Sched{rng: prng.New(seed), pol: pol, wake: make(chan struct{}, 1), locks: map[string]*lockState{}}
	if pol.Kind == "pct" {
		s.pctPrio = map[string]int{}
		s.pctChange = map[int]bool{}
		for i := 0; i < pol.PCTDepth; i++ {
			s.pctChange[s.rng.Intn(400)] = true
		}
	}
	return s
}

// DrawPolicy draws a scheduling policy (swarm).
func DrawPolicy(r *prng.R, starveCandidates []string) Policy {
	switch r.Intn(4) {
	case 0:
		return Policy{Kind: "uniform"}
	case 1:
		return Policy{Kind: "sticky", Stick: []float64{0.5, 0.8, 0.95}[r.Intn(3)]}
	case 2:
		if len(starveCandidates) > 0 {
			return Policy{Kind: "starve", Starve: starveCandidates[r.Intn(len(starveCandidates))], StarveSteps: r.Range(5, 60)}
		}
		return Policy{Kind: "uniform"}
	default:
		return Policy{Kind: "pct", PCTDepth: r.Range(1, 4)}
	}
}

func (s *Sched) signal() {
	select {
	case s.wake <- struct{}{}:
	default:
	}
}

func idOf(site string, keys []int) string {
	if len(keys) == 0 {
		return site
	}
	var sb strings.Builder
	sb.WriteString(site)
	for _, k := range keys {
		fmt.Fprintf(&sb, "#%d", k)
	}
	return sb.String()
}

func (s *Sched) park(id string, guard func() bool) {
	e := &entry{id: id, ch: make(chan struct{}), guard: guard}
	s.mu.Lock()
	if s.stopped {
		s.mu.Unlock()
		return
	}
	s.seq++
	e.seq = s.seq
	s.parked = append(s.parked, e)
	s.mu.Unlock()
	s.signal()
	<-e.ch
}

// Yield is a scheduling point: the caller parks until the scheduler releases it.
func (s *Sched) Yield(site string, keys ...int) { s.park(idOf(site, keys), nil) }

func (s *Sched) grantable(name string, excl bool) bool {
	l := s.locks[name]
	if l == nil {
		return true
	}
	if excl {
		return !l.writer && l.readers == 0
	}
	return !l.writer
}

// Acquire mirrors taking a lock that the code holds across blocking operations. It must be called right
// before the real Lock/RLock; because only the holder of the mirrored lock runs, the real lock never blocks.
func (s *Sched) Acquire(name string, excl bool) {
	for {
		s.mu.Lock()
		if s.stopped || s.grantable(name, excl) {
			l := s.locks[name]
			if l == nil {
				l = &lockState{}
				s.locks[name] = l
			}
			if excl {
				l.writer = true
			} else {
				l.readers++
			}
			s.mu.Unlock()
			return
		}
		s.mu.Unlock()
		s.park("lock:"+name, func() bool { return s.grantable(name, excl) })
	}
}

// Release mirrors the unlock (call it right after the real Unlock/RUnlock).
func (s *Sched) Release(name string, excl bool) {
	s.mu.Lock()
	if l := s.locks[name]; l != nil {
		if excl {
			l.writer = false
		} else if l.readers > 0 {
			l.readers--
		}
	}
	s.mu.Unlock()
	s.signal()
}

// EndStarve ends the starvation phase of a "starve" policy now (called by the running task, e.g. once the backlog the
// starvation was meant to build exists).
func (s *Sched) EndStarve() {
	s.mu.Lock()
	s.pol.StarveSteps = 0
	s.mu.Unlock()
}

// Go starts a harness task. The task starts parked (at "<name>:start") and should Yield between its steps.
func (s *Sched) Go(name string, f func()) {
	s.mu.Lock()
	s.tasks++
	s.mu.Unlock()
	go func() {
		defer func() {
			s.mu.Lock()
			s.tasks--
			s.mu.Unlock()
			s.signal()
		}()
		s.Yield(name + ":start")
		f()
	}()
}

// Steps returns the number of scheduling steps so far.
func (s *Sched) Steps() int { s.mu.Lock(); defer s.mu.Unlock(); return s.steps }

// TraceHash identifies the interleaving.
func (s *Sched) TraceHash() uint64 { return s.traceHash }

func (s *Sched) choose(run []*entry) int {
	if s.Replay != nil {
		i := len(s.Choices)
		if i < len(s.Replay) && s.Replay[i] >= 0 && s.Replay[i] < len(run) {
			return s.Replay[i]
		}
		return 0
	}
	switch s.pol.Kind {
	case "sticky":
		if s.rng.Chance(s.pol.Stick) {
			for i, e := range run {
				if e.id == s.lastID {
					return i
				}
			}
		}
	case "starve":
		if s.steps < s.pol.StarveSteps {
			var others []int
			for i, e := range run {
				if !strings.HasPrefix(e.id, s.pol.Starve) {
					others = append(others, i)
				}
			}
			if len(others) > 0 {
				return others[s.rng.Intn(len(others))]
			}
		}
	case "pct":
		if s.pctChange[s.steps] && s.lastID != "" {
			s.pctPrio[s.lastID] = -s.steps // demote the running task
		}
		best, bp := 0, -1<<62
		for i, e := range run {
			p, ok := s.pctPrio[e.id]
			if !ok {
				p = s.rng.Intn(1000) + 1
				s.pctPrio[e.id] = p
			}
			if p > bp {
				best, bp = i, p
			}
		}
		return best
	}
	return s.rng.Intn(len(run))
}

// ErrStall is returned when nothing became runnable for Idle simulated time although tasks are unfinished.
type ErrStall struct {
	Parked []string
	Tasks  int
}

func (e *ErrStall) Error() string {
	return fmt.Sprintf("stall: %d harness tasks unfinished, nothing runnable; parked (blocked on mirrored locks): %v", e.Tasks, e.Parked)
}

// Run schedules until done() is true (checked at quiescence), all harness tasks have finished (if done is nil),
// or the step cap is hit. It returns an *ErrStall if nothing is runnable for Idle simulated time.
func (s *Sched) Run(done func() bool) error {
	maxSteps := s.MaxSteps
	if maxSteps == 0 {
		maxSteps = 100000
	}
	idle := s.Idle
	if idle == 0 {
		idle = time.Hour
	}
	for {
		synctest.Wait()
		s.mu.Lock()
		if (done != nil && done()) || (done == nil && s.tasks == 0) || s.steps >= maxSteps {
			s.mu.Unlock()
			return nil
		}
		var run []*entry
		for _, e := range s.parked {
			if e.guard == nil || e.guard() {
				run = append(run, e)
			}
		}
		if len(run) == 0 {
			var names []string
			for _, e := range s.parked {
				names = append(names, e.id)
			}
			tasks := s.tasks
			s.mu.Unlock()
			// Nothing to release: block, so that the bubble's fake clock advances to the next timer.
			t := time.NewTimer(idle)
			select {
			case <-s.wake:
				t.Stop()
				continue
			case <-t.C:
				sort.Strings(names)
				return &ErrStall{Parked: names, Tasks: tasks}
			}
		}
		sort.Slice(run, func(i, j int) bool {
			if run[i].id != run[j].id {
				return run[i].id < run[j].id
			}
			return run[i].seq < run[j].seq
		})
		k := s.choose(run)
		pick := run[k]
		s.Choices = append(s.Choices, k)
		for i, e := range s.parked {
			if e == pick {
				s.parked = append(s.parked[:i], s.parked[i+1:]...)
				break
			}
		}
		s.steps++
		s.lastID = pick.id
		s.traceHash = prng.Mix(s.traceHash ^ prng.DeriveS(uint64(s.steps), pick.id))
		if s.KeepTrace {
			s.Trace = append(s.Trace, fmt.Sprintf("%d:%s", s.steps, pick.id))
		}
		// drain a stale wake-up token so that the next idle wait really blocks
		select {
		case <-s.wake:
		default:
		}
		s.mu.Unlock()
		close(pick.ch)
	}
}

// Stop releases every parked task and makes further Yield / Acquire calls return immediately
// (used at the end of a run so that the system under test can shut down).
func (s *Sched) Stop() {
	s.mu.Lock()
	s.stopped = true
	p := s.parked
	s.parked = nil
	s.mu.Unlock()
	for _, e := range p {
		close(e.ch)
	}
}

// Hook adapts a Sched to the Yield/Acquire/Release part of simhook.Simulator.
type Hook struct{ S *Sched }

func (h Hook) Yield(site string, keys ...int) {
	if h.S != nil {
		h.S.Yield(site, keys...)
	}
}
func (h Hook) Acquire(name string, excl bool) {
	if h.S != nil {
		h.S.Acquire(name, excl)
	}
}
func (h Hook) Release(name string, excl bool) {
	if h.S != nil {
		h.S.Release(name, excl)
	}
}
