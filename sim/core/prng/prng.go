// Package prng is the only source of randomness in the simulator.
package prng

// SplitMix64 step.
func Mix(x uint64) uint64 {
	x += 0x9e3779b97f4a7c15
	x = (x ^ (x >> 30)) * 0xbf58476d1ce4e5b9
	x = (x ^ (x >> 27)) * 0x94d049bb133111eb
	return x ^ (x >> 31)
}

// Derive returns a seed for a sub-stream.
func Derive(seed uint64, parts ...uint64) uint64 {
	x := Mix(seed)
	for _, p := range parts {
		x = Mix(x ^ Mix(p))
	}
	return x
}

// DeriveS derives by name.
func DeriveS(seed uint64, name string) uint64 {
	h := uint64(1469598103934665603)
	for i := 0; i < len(name); i++ {
		h ^= uint64(name[i])
		h *= 1099511628211
	}
	return Derive(seed, h)
}

// R is a small deterministic generator (xoshiro256**).
type R struct{ s [4]uint64 }

func New(seed uint64) *R {
	r := &R{}
	x := seed
	for i := range r.s {
		x = Mix(x)
		r.s[i] = x
	}
	return r
}

func rotl(x uint64, k uint) uint64 { return (x << k) | (x >> (64 - k)) }

func (r *R) Uint64() uint64 {
	s := &r.s
	res := rotl(s[1]*5, 7) * 9
	t := s[1] << 17
	s[2] ^= s[0]
	s[3] ^= s[1]
	s[1] ^= s[2]
	s[0] ^= s[3]
	s[2] ^= t
	s[3] = rotl(s[3], 45)
	return res
}

// Intn returns a value in [0,n). n must be > 0.
func (r *R) Intn(n int) int {
	if n <= 0 {
		panic("prng: Intn n<=0")
	}
	return int(r.Uint64() % uint64(n))
}

// Int63n returns a value in [0,n).
func (r *R) Int63n(n int64) int64 {
	if n <= 0 {
		panic("prng: Int63n n<=0")
	}
	return int64(r.Uint64() % uint64(n))
}

// Range returns a value in [lo,hi].
func (r *R) Range(lo, hi int) int { return lo + r.Intn(hi-lo+1) }

func (r *R) Float() float64 { return float64(r.Uint64()>>11) / (1 << 53) }

// Chance returns true with probability p.
func (r *R) Chance(p float64) bool { return r.Float() < p }

// Pick returns an index chosen with the given integer weights.
func (r *R) Pick(weights []int) int {
	t := 0
	for _, w := range weights {
		t += w
	}
	if t <= 0 {
		panic("prng: Pick with zero total")
	}
	x := r.Intn(t)
	for i, w := range weights {
		if x < w {
			return i
		}
		x -= w
	}
	return len(weights) - 1
}

// Bytes fills b.
func (r *R) Bytes(b []byte) {
	for i := range b {
		b[i] = byte(r.Uint64())
	}
}
