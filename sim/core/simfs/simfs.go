// Package simfs implements the simulated disk of the process-kill crash model:
// real files on tmpfs, crash images taken as recursive copies at IO-hook time,
// derived torn-write / partial-removeall variants, and tree digests.
package simfs

import (
	"crypto/sha256"
	"encoding/hex"
	"fmt"
	"io"
	"os"
	"path/filepath"
	"sort"
	"strings"
)

// CopyTree copies src recursively into dst (dst must not exist or be empty).
func CopyTree(src, dst string) error {
	return filepath.Walk(src, func(p string, fi os.FileInfo, err error) error {
		if err != nil {
			if os.IsNotExist(err) {
				return nil
			}
			return err
		}
		rel, _ := filepath.Rel(src, p)
		target := filepath.Join(dst, rel)
		if fi.IsDir() {
			return os.MkdirAll(target, 0o777)
		}
		if !fi.Mode().IsRegular() {
			return nil
		}
		if fi.Name() == "lock" {
			return nil
		}
		return copyFile(p, target)
	})
}

func copyFile(src, dst string) error {
	in, err := os.Open(src)
	if err != nil {
		if os.IsNotExist(err) {
			return nil
		}
		return err
	}
	defer in.Close()
	out, err := os.Create(dst)
	if err != nil {
		return err
	}
	if _, err := io.Copy(out, in); err != nil {
		out.Close()
		return err
	}
	return out.Close()
}

// Entry describes one file of a tree.
type Entry struct {
	Rel  string
	Dir  bool
	Size int64
	Sum  string
}

// Digest returns a sorted listing with content hashes.
func Digest(root string) ([]Entry, error) {
	var out []Entry
	err := filepath.Walk(root, func(p string, fi os.FileInfo, err error) error {
		if err != nil {
			return err
		}
		rel, _ := filepath.Rel(root, p)
		if rel == "." {
			return nil
		}
		if fi.IsDir() {
			out = append(out, Entry{Rel: rel, Dir: true})
			return nil
		}
		b, err := os.ReadFile(p)
		if err != nil {
			return err
		}
		h := sha256.Sum256(b)
		out = append(out, Entry{Rel: rel, Size: fi.Size(), Sum: hex.EncodeToString(h[:8])})
		return nil
	})
	sort.Slice(out, func(i, j int) bool { return out[i].Rel < out[j].Rel })
	return out, err
}

// DigestString is Digest flattened to one string.
func DigestString(root string) string {
	es, err := Digest(root)
	if err != nil {
		return "ERR:" + err.Error()
	}
	var sb strings.Builder
	for _, e := range es {
		if e.Dir {
			fmt.Fprintf(&sb, "%s/\n", e.Rel)
		} else {
			fmt.Fprintf(&sb, "%s %d %s\n", e.Rel, e.Size, e.Sum)
		}
	}
	return sb.String()
}

// DiffDigest returns human readable differences a -> b (limited).
func DiffDigest(a, b []Entry) []string {
	ma := map[string]Entry{}
	mb := map[string]Entry{}
	for _, e := range a {
		ma[e.Rel] = e
	}
	for _, e := range b {
		mb[e.Rel] = e
	}
	var out []string
	for _, e := range a {
		o, ok := mb[e.Rel]
		switch {
		case !ok:
			out = append(out, "removed "+e.Rel)
		case o != e:
			out = append(out, "changed "+e.Rel)
		}
	}
	for _, e := range b {
		if _, ok := ma[e.Rel]; !ok {
			out = append(out, "added "+e.Rel)
		}
	}
	sort.Strings(out)
	return out
}

// Layout is a coarse signature of a TSDB data dir used to count distinct crash states.
func Layout(root string) string {
	var segs, wbl, cps, blocks, tmp, chunks, snaps, other int
	ents, _ := os.ReadDir(root)
	for _, e := range ents {
		n := e.Name()
		switch {
		case n == "wal":
			ws, _ := os.ReadDir(filepath.Join(root, n))
			for _, w := range ws {
				switch {
				case strings.HasSuffix(w.Name(), ".tmp") || strings.HasSuffix(w.Name(), ".repair"):
					tmp++
				case strings.HasPrefix(w.Name(), "checkpoint."):
					cps++
				case w.Name() == "series_state.json":
				default:
					segs++
				}
			}
		case n == "wbl":
			ws, _ := os.ReadDir(filepath.Join(root, n))
			wbl = len(ws)
		case n == "chunks_head":
			ws, _ := os.ReadDir(filepath.Join(root, n))
			chunks = len(ws)
		case strings.HasPrefix(n, "chunk_snapshot."):
			if strings.HasSuffix(n, ".tmp") {
				tmp++
			} else {
				snaps++
			}
		case strings.Contains(n, ".tmp"):
			tmp++
		case len(n) == 26:
			blocks++
		default:
			other++
		}
	}
	return fmt.Sprintf("w%d.b%d.c%d.k%d.t%d.h%d.s%d", segs, wbl, cps, blocks, tmp, chunks, snaps)
}
