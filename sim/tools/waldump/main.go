// waldump prints the decoded records of a WAL/WBL directory (debugging aid).
package main

import (
	"fmt"
	"os"

	"github.com/prometheus/prometheus/model/labels"
	"github.com/prometheus/prometheus/tsdb/record"
	"github.com/prometheus/prometheus/tsdb/wlog"
)

func main() {
	sr, err := wlog.NewSegmentsReader(os.Args[1])
	if err != nil {
		panic(err)
	}
	defer sr.Close()
	r := wlog.NewReader(sr)
	dec := record.NewDecoder(labels.NewSymbolTable(), nil)
	for r.Next() {
		rec := r.Record()
		switch dec.Type(rec) {
		case record.Series:
			s, err := dec.Series(rec, nil)
			fmt.Println("seg", r.Segment(), "off", r.Offset(), "series", s, err)
		case record.Samples, record.SamplesV2:
			s, err := dec.Samples(rec, nil)
			fmt.Println("seg", r.Segment(), "off", r.Offset(), "samples", s, err)
		case record.HistogramSamples, record.CustomBucketsHistogramSamples, record.HistogramSamplesV2:
			s, err := dec.HistogramSamples(rec, nil)
			fmt.Println("seg", r.Segment(), "off", r.Offset(), "hist", len(s), err)
		case record.FloatHistogramSamples, record.CustomBucketsFloatHistogramSamples, record.FloatHistogramSamplesV2:
			s, err := dec.FloatHistogramSamples(rec, nil)
			for _, x := range s {
				fmt.Println("seg", r.Segment(), "off", r.Offset(), "fhist ref", x.Ref, "t", x.T, err)
			}
		case record.Tombstones:
			s, err := dec.Tombstones(rec, nil)
			fmt.Println("seg", r.Segment(), "off", r.Offset(), "tombstones", s, err)
		case record.MmapMarkers:
			s, err := dec.MmapMarkers(rec, nil)
			fmt.Println("seg", r.Segment(), "off", r.Offset(), "mmapmarkers", s, err)
		default:
			fmt.Println("seg", r.Segment(), "off", r.Offset(), "type", dec.Type(rec), len(rec))
		}
	}
	fmt.Println("err", r.Err())
}
