// opendump opens a copy of a data dir with given options and prints all samples (debugging aid).
package main

import (
	"context"
	"flag"
	"fmt"
	"math"
	"os"
	"path/filepath"

	"github.com/prometheus/prometheus/model/labels"
	"github.com/prometheus/prometheus/tsdb"
	"github.com/prometheus/prometheus/tsdb/chunkenc"
	"verif/sim/core/simfs"
)

func main() {
	snap := flag.Bool("snap", false, "")
	ooo := flag.Int64("ooo", 0, "")
	r := flag.Int64("r", 1000, "")
	spc := flag.Int("spc", 120, "")
	iso := flag.Bool("isooff", false, "")
	probe := flag.Bool("probe", false, "append a probe sample, close (snapshot if enabled), reopen and dump again")
	flag.Parse()
	dir := "/dev/shm/opendump"
	os.RemoveAll(dir)
	simfs.CopyTree(flag.Arg(0), dir)
	o := tsdb.DefaultOptions()
	o.EnableMemorySnapshotOnShutdown = *snap
	o.OutOfOrderTimeWindow = *ooo
	o.MinBlockDuration, o.MaxBlockDuration = *r, *r*3
	o.SamplesPerChunk = *spc
	o.IsolationDisabled = *iso
	o.WALSegmentSize = 32 * 1024
	o.NoLockfile = true
	db, err := tsdb.Open(dir, nil, nil, o, nil)
	if err != nil {
		panic(err)
	}
	q, _ := db.Querier(math.MinInt64, math.MaxInt64)
	ss := q.Select(context.Background(), true, nil, labels.MustNewMatcher(labels.MatchRegexp, "__name__", ".+"))
	for ss.Next() {
		fmt.Print(ss.At().Labels(), ": ")
		it := ss.At().Iterator(nil)
		for vt := it.Next(); vt != chunkenc.ValNone; vt = it.Next() {
			fmt.Print(it.AtT(), " ")
		}
		fmt.Println()
	}
	q.Close()
	if !*probe {
		return
	}
	app := db.Appender(context.Background())
	if _, err := app.Append(0, labels.FromStrings("__name__", "probe"), db.Head().MaxTime()+1, 42); err != nil {
		panic(err)
	}
	if err := app.Commit(); err != nil {
		panic(err)
	}
	if err := db.Close(); err != nil {
		panic(err)
	}
	fmt.Println("--- closed; files:")
	filepath.Walk(dir, func(p string, fi os.FileInfo, err error) error {
		if err == nil && !fi.IsDir() {
			fmt.Println("   ", p[len(dir):], fi.Size())
		}
		return nil
	})
	db, err = tsdb.Open(dir, nil, nil, o, nil)
	if err != nil {
		panic(err)
	}
	fmt.Println("--- reopened")
	q, _ = db.Querier(math.MinInt64, math.MaxInt64)
	ss = q.Select(context.Background(), true, nil, labels.MustNewMatcher(labels.MatchRegexp, "__name__", ".+"))
	for ss.Next() {
		fmt.Print(ss.At().Labels(), ": ")
		it := ss.At().Iterator(nil)
		for vt := it.Next(); vt != chunkenc.ValNone; vt = it.Next() {
			fmt.Print(it.AtT(), " ")
		}
		fmt.Println()
	}
	q.Close()
}
