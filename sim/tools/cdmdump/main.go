// cdmdump lists the chunks in a chunks_head directory (debugging aid).
package main

import (
	"fmt"
	"os"

	"github.com/prometheus/prometheus/tsdb/chunkenc"
	"github.com/prometheus/prometheus/tsdb/chunks"
	"verif/sim/core/simfs"
)

func main() {
	dir := "/dev/shm/cdmdump/chunks_head"
	os.RemoveAll("/dev/shm/cdmdump")
	simfs.CopyTree(os.Args[1], dir)
	cdm, err := chunks.NewChunkDiskMapper(nil, dir, chunkenc.NewPool(), chunks.DefaultWriteBufferSize, chunks.DefaultWriteQueueSize)
	if err != nil {
		fmt.Println("open:", err)
		return
	}
	err = cdm.IterateAllChunks(func(ref chunks.HeadSeriesRef, cref chunks.ChunkDiskMapperRef, mint, maxt int64, n uint16, enc chunkenc.Encoding, ooo bool) error {
		seq, off := cref.Unpack()
		fmt.Printf("series %d file %d off %d [%d,%d] n=%d enc=%v ooo=%v\n", ref, seq, off, mint, maxt, n, enc, ooo)
		return nil
	})
	fmt.Println("err", err)
	cdm.Close()
	os.RemoveAll("/dev/shm/cdmdump")
}
