#!/bin/bash
# Builds every engine binary once (warms the Go build cache); each check rebuilds its engine from /repo anyway.
set -e
cd "$(dirname "$0")"
./build.sh all
