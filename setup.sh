#!/bin/bash
# builds every engine binary once; checks rebuild incrementally from /repo
set -e
cd "$(dirname "$0")"
[ -x ./build.sh ] && ./build.sh all
exit 0
